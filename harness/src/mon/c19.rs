//! C19 — header boxes and configuration records follow their specifications' layouts.

use super::*;
use crate::bmff::BoxNode;
use crate::specdec as sd;

fn v(sig: String, detail: String) -> Violation {
    Violation::new("C19", sig, detail)
}

pub struct Expect {
    pub width: u32,
    pub height: u32,
    pub movie_timescale: Option<u32>,
    pub media_timescale: u32,
    pub n_tracks: usize,
    /// the codec video() was given (None: not known, e.g. a FragmentConfig built by hand, where the
    /// fields present decide)
    pub codec: Option<u8>,
}

fn walk<'a>(n: &'a BoxNode, path: String, f: &mut dyn FnMut(&'a BoxNode, &str)) {
    let p = format!("{}/{}", path, n.typ_str());
    f(n, &p);
    for c in &n.children {
        walk(c, p.clone(), f);
    }
}

/// Strictly decode every fixed-layout box below `tree`; `kind` = "file" | "init" | "segment".
pub fn check_stream(bytes: &[u8], kind: &str, exp: Option<&Expect>, obs: &mut Obs) -> Vec<Violation> {
    let tree = bmff::parse_tree(bytes);
    let mut dev: Vec<String> = Vec::new();
    let mut tkhds: Vec<sd::TkhdS> = Vec::new();
    let mut mvhd: Option<sd::MvhdS> = None;
    let mut mdhds: Vec<sd::MdhdS> = Vec::new();
    let mut handlers: Vec<[u8; 4]> = Vec::new();
    let mut ventries: Vec<sd::VisualEntry> = Vec::new();
    let mut stsz_counts: Vec<u32> = Vec::new();
    let mut boxes = 0u64;
    for top in &tree.top {
        walk(top, String::new(), &mut |n, path| {
            boxes += 1;
            let p = n.payload(bytes);
            let before = dev.len();
            match &n.typ {
                b"ftyp" => {
                    sd::ftyp(p, &mut dev);
                }
                b"mvhd" => mvhd = sd::mvhd(p, &mut dev),
                b"tkhd" => {
                    if let Some(t) = sd::tkhd(p, &mut dev) {
                        tkhds.push(t);
                    }
                }
                b"mdhd" => {
                    if let Some(m) = sd::mdhd(p, &mut dev) {
                        mdhds.push(m);
                    }
                }
                b"hdlr" if path.ends_with("/mdia/hdlr") => {
                    if let Some(h) = sd::hdlr_media(p, &mut dev) {
                        handlers.push(h.handler);
                    }
                }
                b"hdlr" => {
                    sd::hdlr(p, &mut dev);
                }
                b"vmhd" => sd::vmhd(p, &mut dev),
                b"smhd" => sd::smhd(p, &mut dev),
                b"dref" => sd::dref(p, &mut dev),
                b"trex" => sd::trex(p, &mut dev),
                b"mfhd" => sd::mfhd(p, &mut dev),
                b"avc1" | b"hvc1" | b"hev1" | b"av01" | b"vp09" => {
                    if let Some(e) = sd::visual_entry(n.bytes(bytes), &mut dev) {
                        for (t, cp) in &e.children {
                            match t {
                                b"avcC" => {
                                    sd::avcc(cp, &mut dev);
                                }
                                b"hvcC" => {
                                    if let Some(hc) = sd::hvcc(cp, &mut dev) {
                                        // ISO/IEC 14496-15 8.3.3.1: general_profile_space / tier /
                                        // profile_idc are those of the SPS the record carries (the
                                        // first byte of its profile_tier_level, NAL byte 3; no
                                        // emulation-prevention byte can precede it)
                                        if let Some(sps) = hc.arrays.iter().find(|a| a.0 == 33).and_then(|a| a.2.first()) {
                                            if sps.len() >= 4 && (sps[0] >> 1) & 0x3f == 33 {
                                                let b = sps[3];
                                                if (hc.profile_space, hc.tier, hc.profile_idc) != (b >> 6, b & 0x20 != 0, b & 0x1f) {
                                                    dev.push("hvcC: general_profile_space / tier_flag / profile_idc disagree with the SPS in the record".into());
                                                }
                                                obs.count("hvcC_cross_checked_with_its_SPS", 1);
                                            }
                                        }
                                    }
                                }
                                b"av1C" => {
                                    if let Some(c) = sd::av1c(cp, &mut dev) {
                                        // AV1-ISOBMFF 2.3.3: the record's fields shall match the
                                        // sequence header OBU carried in configOBUs (a strict
                                        // reader cross-checks them); needs no side information
                                        if let crate::model::av1::SeqScan::Valid(_, e) = crate::model::av1::scan_for_seq_hdr(&c.config_obus) {
                                            let mono = if e.monochrome { " (monochrome header)" } else { "" };
                                            let pairs: [(&str, u32, u32); 9] = [
                                                ("seq_profile", c.seq_profile as u32, e.seq_profile as u32),
                                                ("seq_level_idx_0", c.seq_level_idx_0 as u32, e.seq_level_idx_0 as u32),
                                                ("seq_tier_0", c.seq_tier_0 as u32, e.seq_tier_0 as u32),
                                                ("high_bitdepth", c.high_bitdepth as u32, e.high_bitdepth as u32),
                                                ("twelve_bit", c.twelve_bit as u32, e.twelve_bit as u32),
                                                ("monochrome", c.monochrome as u32, e.monochrome as u32),
                                                ("chroma_subsampling_x", c.sub_x as u32, e.sub_x as u32),
                                                ("chroma_subsampling_y", c.sub_y as u32, e.sub_y as u32),
                                                ("chroma_sample_position", c.csp as u32, e.csp as u32),
                                            ];
                                            let defaulted = (c.seq_profile, c.seq_level_idx_0, c.seq_tier_0, c.high_bitdepth, c.twelve_bit, c.monochrome, c.sub_x, c.sub_y, c.csp) == (0, 0, 0, false, false, false, true, true, 0);
                                            if let Some((name, _, _)) = pairs.iter().find(|(_, g, w)| g != w) {
                                                if defaulted && *name != "chroma_sample_position" {
                                                    dev.push(format!("av1C: carries default field values although configOBUs hold a sequence header that says otherwise{}", mono));
                                                } else {
                                                    dev.push(format!("av1C: {} disagrees with the sequence header in configOBUs{}", name, mono));
                                                }
                                            }
                                            obs.count("av1C_cross_checked_with_configOBUs", 1);
                                        }
                                    }
                                }
                                b"vpcC" => {
                                    sd::vpcc(cp, &mut dev);
                                }
                                _ => {}
                            }
                        }
                        ventries.push(e);
                    }
                }
                b"mp4a" | b"Opus" => {
                    if let Some(e) = sd::audio_entry(n.bytes(bytes), &mut dev) {
                        for (t, cp) in &e.children {
                            match t {
                                b"esds" => {
                                    if let Some(es) = sd::esds(cp, &mut dev) {
                                        // the record names its sampling rate by table index: for
                                        // a standard rate that must be the rate of the entry
                                        const RATES: [u32; 13] = [96000, 88200, 64000, 48000, 44100, 32000, 24000, 22050, 16000, 12000, 11025, 8000, 7350];
                                        let entry_rate = e.rate_fixed >> 16;
                                        if es.asc.len() >= 2 && e.rate_fixed & 0xffff == 0 && RATES.contains(&entry_rate) && (es.sfi as usize) < RATES.len() && RATES[es.sfi as usize] != entry_rate {
                                            dev.push("esds: samplingFrequencyIndex names another rate than the mp4a sample entry".into());
                                        }
                                    }
                                }
                                b"dOps" => {
                                    if let Some(d) = sd::dops(cp, &mut dev) {
                                        if d.channels as u16 != e.channels && e.channels <= 255 {
                                            dev.push("dOps: OutputChannelCount differs from the sample entry channelcount".into());
                                        }
                                        if d.family != 0 && d.mapping.len() == d.channels as usize && (d.stream_count == 0 || d.coupled_count > d.stream_count) {
                                            dev.push("dOps: stream/coupled counts inconsistent".into());
                                        }
                                    }
                                }
                                _ => {}
                            }
                        }
                        if &e.typ == b"Opus" && e.rate_fixed != 48_000 << 16 {
                            dev.push("Opus sample entry: samplerate not 48000".into());
                        }
                    }
                }
                b"stts" | b"stsc" | b"stsz" | b"stco" | b"stss" | b"stsd" | b"dref" | b"meta" => {
                    // FullBox(version 0, flags 0)
                    if p.len() < 4 || p[..4] != [0, 0, 0, 0] {
                        dev.push(format!("{}: version/flags not 0", n.typ_str()));
                    }
                    if &n.typ == b"stsz" && p.len() >= 12 {
                        stsz_counts.push(u32::from_be_bytes([p[8], p[9], p[10], p[11]]));
                    }
                }
                b"ctts" => {
                    if p.len() < 4 || p[0] > 1 || p[1..4] != [0, 0, 0] {
                        dev.push("ctts: version not 0/1 or flags not 0".into());
                    }
                }
                b"data" if path.contains("/ilst/") => {
                    // iTunes data box: type indicator (1 = UTF-8) and locale 0
                    if p.len() < 8 || p[..4] != [0, 0, 0, 1] || p[4..8] != [0, 0, 0, 0] {
                        dev.push("ilst data: type indicator not UTF-8 (1) or locale not 0".into());
                    }
                }
                b"tfhd" | b"tfdt" | b"trun" => {}
                _ => {}
            }
            let _ = before;
        });
    }
    // fragment-level records are decoded (strictly) by the fragment parser
    if kind == "segment" {
        let f = bmff::parse_fragment(bytes, &tree, None);
        for e in &f.errors {
            dev.push(format!("fragment: {}", e.chars().filter(|c| !c.is_ascii_digit()).collect::<String>()));
        }
        if f.tfdt_version > 1 {
            dev.push("tfdt: unknown version".into());
        }
        if f.trun_version > 1 {
            dev.push("trun: unknown version".into());
        }
        if f.trun_version == 0 && f.samples.iter().any(|s| s.cts_off > i32::MAX as i64) {
            // version 0 offsets are unsigned: values with the top bit set were meant negative
            dev.push("trun: version 0 with offsets that only make sense as signed".into());
        }
        if f.track_id == 0 {
            dev.push("tfhd: track_ID 0".into());
        }
    }
    let mut out = Vec::new();
    dev.sort();
    dev.dedup();
    for d in &dev {
        out.push(v(format!("{}|{}", kind, d), format!("{} stream: {}", kind, d)));
    }
    // recovered values
    if kind != "segment" {
        if let Some(m) = &mvhd {
            if m.matrix != sd::UNITY {
                out.push(v(format!("{}|mvhd: matrix not identity", kind), format!("{:x?}", m.matrix)));
            }
            if m.rate != 0x0001_0000 || m.volume != 0x0100 {
                out.push(v(format!("{}|mvhd: rate/volume not 1.0", kind), format!("rate {:#x} volume {:#x}", m.rate, m.volume)));
            }
            if let Some(e) = exp {
                if let Some(ts) = e.movie_timescale {
                    if m.timescale != ts {
                        out.push(v(format!("{}|mvhd: timescale", kind), format!("movie timescale {} expected {}", m.timescale, ts)));
                    }
                }
            }
            // track IDs are read positionally (lenient reader) so that a tkhd with a wrong size
            // does not hide ID problems
            let ids: Vec<u32> = bmff::parse_movie(bytes, &tree).tracks.iter().map(|t| t.track_id).collect();
            if ids.iter().any(|&i| i == 0) {
                out.push(v(format!("{}|tkhd: track_ID 0", kind), format!("{:?}", ids)));
            }
            let mut s = ids.clone();
            s.sort();
            s.dedup();
            if s.len() != ids.len() {
                out.push(v(format!("{}|tkhd: duplicate track IDs", kind), format!("{:?}", ids)));
            }
            if let Some(mx) = ids.iter().max() {
                if m.next_track_id <= *mx {
                    out.push(v(
                        format!("{}|mvhd: next_track_ID not above all track IDs|tracks={}", kind, ids.len()),
                        format!("next_track_ID {} with track IDs {:?}", m.next_track_id, ids),
                    ));
                }
            }
        }
        for t in &tkhds {
            if t.matrix != sd::UNITY {
                out.push(v(format!("{}|tkhd: matrix not identity", kind), format!("{:x?}", t.matrix)));
            }
        }
        if let Some(e) = exp {
            for m in &mdhds {
                if m.timescale != e.media_timescale {
                    out.push(v(format!("{}|mdhd: timescale", kind), format!("media timescale {} expected {}", m.timescale, e.media_timescale)));
                }
            }
            if e.width <= 65_535 && e.height <= 65_535 {
                // video tkhd: the one belonging to the 'vide' handler = first track here
                if let (Some(t), true) = (tkhds.first(), handlers.first() == Some(b"vide")) {
                    let (w, wf) = sd::fixed16(t.width);
                    let (h, hf) = sd::fixed16(t.height);
                    if (w, h) != (e.width, e.height) || !wf || !hf {
                        out.push(v(format!("{}|tkhd: width/height", kind), format!("tkhd {}x{} (16.16 {:#x} {:#x}) expected {}x{}", w, h, t.width, t.height, e.width, e.height)));
                    }
                }
                for ve in &ventries {
                    if let Some(c) = e.codec {
                        if !super::c07::fourcc_of(c).iter().any(|f| **f == ve.typ) {
                            // (a recording without a single frame has no stream to take the codec
                            // configuration from; what the library writes then is its own case)
                            let empty = if kind == "file" && stsz_counts.first() == Some(&0) { "|recording without frames" } else { "" };
                            out.push(v(format!("{}|visual sample entry: not the configured codec's entry type{}", kind, empty), format!("entry {:?} for codec {}", String::from_utf8_lossy(&ve.typ), c)));
                        }
                    }
                    if (ve.width as u32, ve.height as u32) != (e.width, e.height) {
                        out.push(v(format!("{}|visual sample entry: width/height", kind), format!("{}x{} expected {}x{}", ve.width, ve.height, e.width, e.height)));
                    }
                }
            }
            if handlers.len() != e.n_tracks {
                out.push(v(format!("{}|hdlr: count", kind), format!("{} media handlers for {} tracks", handlers.len(), e.n_tracks)));
            }
        }
        if handlers.first().map(|h| h != b"vide").unwrap_or(false) {
            out.push(v(format!("{}|hdlr: first track not 'vide'", kind), format!("{:?}", handlers)));
        }
        if handlers.get(1).map(|h| h != b"soun").unwrap_or(false) {
            out.push(v(format!("{}|hdlr: second track not 'soun'", kind), format!("{:?}", handlers)));
        }
    }
    obs.count("boxes_decoded", boxes);
    obs.count(&format!("{}_streams", kind), 1);
    out
}
