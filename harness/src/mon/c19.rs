//! C19 monitor (filled in below)
