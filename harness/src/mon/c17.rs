//! C17 — output is a pure function of the call sequence; equivalent API paths agree.

use super::*;
use crate::exec::{apply_op, builder_of, classify, guard, run, run_on, ExecOpts};
use crate::sink::{OneByteVec, RecSink};
use crate::util::Rng;
use std::io::Write;
use std::sync::atomic::{AtomicU64, Ordering};
use std::sync::{Arc, Barrier, Mutex};

fn v(sig: String, detail: String) -> Violation {
    Violation::new("C17", sig, detail)
}

#[derive(Clone, PartialEq, Debug)]
pub struct Outcome {
    pub build: Res,
    pub results: Vec<Res>,
    pub bytes: Vec<u8>,
}

impl Outcome {
    pub fn digest(&self) -> u64 {
        crate::util::mix(crate::util::fnv(format!("{:?}{:?}", self.build, self.results).as_bytes()), crate::util::fnv(&self.bytes))
    }
}

pub fn reference(h: &History) -> Outcome {
    let (ex, sink) = run(h, &ExecOpts::default());
    Outcome { build: ex.build, results: ex.results, bytes: sink.bytes() }
}

fn first_diff(a: &Outcome, b: &Outcome, h: &History) -> String {
    if a.build != b.build {
        return format!("build: {} vs {}", a.build.brief(), b.build.brief());
    }
    for (i, (x, y)) in a.results.iter().zip(b.results.iter()).enumerate() {
        if x != y {
            return format!("call #{} {}: {} vs {}", i, h.ops[i].brief(), x.brief(), y.brief());
        }
    }
    let p = a.bytes.iter().zip(b.bytes.iter()).position(|(x, y)| x != y).unwrap_or(a.bytes.len().min(b.bytes.len()));
    format!("output bytes differ at offset {} (sizes {} vs {})", p, a.bytes.len(), b.bytes.len())
}

/// (a) instances / threads / concurrency.
pub fn check_threads(hs: &[History], threads: u32, seed: u64, obs: &mut Obs) -> Vec<Violation> {
    let mut out = Vec::new();
    let refs: Vec<Outcome> = hs.iter().map(reference).collect();
    // a second instance on the same thread first
    for (h, r) in hs.iter().zip(refs.iter()) {
        let again = reference(h);
        if &again != r {
            out.push(v("second-instance-differs".into(), format!("{} ; {}", h.brief(), first_diff(r, &again, h))));
            return out;
        }
    }
    let t = threads.max(1) as usize;
    let ticket = Arc::new(AtomicU64::new(0));
    let trace: Arc<Mutex<Vec<(u64, u8)>>> = Arc::new(Mutex::new(Vec::new()));
    let barrier = Arc::new(Barrier::new(t));
    let hs_arc: Arc<Vec<History>> = Arc::new(hs.to_vec());
    let mut handles = Vec::new();
    for tid in 0..t {
        let (ticket, trace, barrier, hs_arc) = (ticket.clone(), trace.clone(), barrier.clone(), hs_arc.clone());
        handles.push(std::thread::spawn(move || {
            let mut r = Rng::new(crate::util::mix(seed, tid as u64));
            let mine: Vec<usize> = (0..hs_arc.len()).filter(|j| (crate::util::mix(seed, *j as u64 + 1000) % t as u64) as usize == tid).collect();
            let mut local: Vec<(u64, u8)> = Vec::new();
            let mut outs: Vec<(usize, Outcome)> = Vec::new();
            barrier.wait();
            for j in mine {
                let sink = RecSink::new(crate::sink::Fault::None);
                let cell = std::cell::RefCell::new((&mut r, &mut local));
                let ex = run_on(sink.clone(), &hs_arc[j], &ExecOpts::default(), &|_q| {
                    let mut c = cell.borrow_mut();
                    let tk = ticket.fetch_add(1, Ordering::SeqCst);
                    c.1.push((tk, tid as u8));
                    // injected delays *between* calls: the only points where another muxer can interleave
                    match c.0.below(8) {
                        0 => std::thread::yield_now(),
                        1 => std::thread::sleep(std::time::Duration::from_micros(c.0.range(1, 50))),
                        _ => {}
                    }
                });
                outs.push((j, Outcome { build: ex.build, results: ex.results, bytes: sink.bytes() }));
            }
            trace.lock().unwrap().extend(local);
            outs
        }));
    }
    let mut all: Vec<(usize, Outcome)> = Vec::new();
    for h in handles {
        match h.join() {
            Ok(o) => all.extend(o),
            Err(_) => {
                out.push(v("worker-thread-panicked".into(), "a worker thread running muxers panicked".into()));
                return out;
            }
        }
    }
    for (j, o) in &all {
        if o != &refs[*j] {
            out.push(v(format!("concurrent-run-differs|threads={}", if t > 1 { "many" } else { "1" }), format!("{} on {} threads ; {}", hs[*j].brief(), t, first_diff(&refs[*j], o, &hs[*j]))));
            break;
        }
    }
    let mut tr = trace.lock().unwrap().clone();
    tr.sort();
    let switches = tr.windows(2).filter(|w| w[0].1 != w[1].1).count();
    let sig = crate::util::fnv(&tr.iter().map(|x| x.1).collect::<Vec<u8>>());
    obs.count("calls_ticketed", tr.len() as u64);
    obs.count("context_switches_observed", switches as u64);
    obs.set("interleaving_signatures", format!("{:016x}", sig));
    obs.count("thread_runs", 1);
    obs.max("max_threads", t as u64);
    out
}

/// Muxer moved between threads: built on A, fed on B, finished on C. Compiles only while
/// Muxer<W>: Send follows from W: Send.
pub fn run_moved<W: Write + Send + 'static>(w: W, h: &History) -> (Res, Vec<Res>) {
    let cfg = h.cfg.clone();
    let built = std::thread::spawn(move || guard(|| builder_of(w, &cfg).build())).join().unwrap();
    let mux = match built {
        Ok(Ok(m)) => m,
        Ok(Err(e)) => return (Res::Err(classify(&e)), vec![Res::Skipped; h.ops.len()]),
        Err((msg, loc)) => return (Res::Panic { msg, loc }, vec![Res::Skipped; h.ops.len()]),
    };
    let k = h.ops.len() / 2;
    let first: Vec<Op> = h.ops[..k].to_vec();
    let second: Vec<Op> = h.ops[k..].to_vec();
    let (mux, mut r1) = std::thread::spawn(move || {
        let mut m = Some(mux);
        let r: Vec<Res> = first.iter().map(|op| apply_op(&mut m, op, false)).collect();
        (m, r)
    })
    .join()
    .unwrap();
    let r2 = std::thread::spawn(move || {
        let mut m = mux;
        let r: Vec<Res> = second.iter().map(|op| apply_op(&mut m, op, false)).collect();
        drop(m);
        r
    })
    .join()
    .unwrap();
    r1.extend(r2);
    (Res::Ok, r1)
}

/// (a') moves + (b) sink types.
pub fn check_sinks_and_moves(h: &History, tmpdir: &str, obs: &mut Obs) -> Vec<Violation> {
    let mut out = Vec::new();
    let r = reference(h);
    if r.results.iter().any(|x| x.is_panic()) || r.build.is_panic() {
        obs.inconclusive += 1;
        return out;
    }
    let no_seq = |_q: u32| {};
    let mut cmp = |name: &str, build: Res, results: Vec<Res>, bytes: Vec<u8>, out: &mut Vec<Violation>| {
        let o = Outcome { build, results, bytes };
        if o != r {
            out.push(v(format!("sink-type-differs|{}", name), format!("{} ; {}", h.brief(), first_diff(&r, &o, h))));
        }
        obs.set("sink_types", name);
    };
    // moved across threads (RecSink is Send)
    {
        let sink = RecSink::new(crate::sink::Fault::None);
        let (b, res) = run_moved(sink.clone(), h);
        cmp("moved-across-3-threads", b, res, sink.bytes(), &mut out);
    }
    {
        let mut vec: Vec<u8> = Vec::new();
        let ex = run_on(&mut vec, h, &ExecOpts::default(), &no_seq);
        cmp("&mut Vec<u8>", ex.build, ex.results, vec, &mut out);
    }
    {
        let mut cur = std::io::Cursor::new(Vec::<u8>::new());
        let ex = run_on(&mut cur, h, &ExecOpts::default(), &no_seq);
        cmp("Cursor<Vec<u8>>", ex.build, ex.results, cur.into_inner(), &mut out);
    }
    {
        let mut ob = OneByteVec(Vec::new());
        let ex = run_on(&mut ob, h, &ExecOpts::default(), &no_seq);
        cmp("one-byte-per-write sink", ex.build, ex.results, ob.0, &mut out);
    }
    {
        let shared = RecSink::new(crate::sink::Fault::None);
        let boxed: Box<dyn Write + Send> = Box::new(shared.clone());
        let ex = run_on(boxed, h, &ExecOpts::default(), &no_seq);
        cmp("Box<dyn Write + Send>", ex.build, ex.results, shared.bytes(), &mut out);
    }
    // the caller's buffer management is not part of the call sequence: one reused buffer for all
    // frames (same address, often same length) vs a fresh buffer per frame
    {
        let mut vec: Vec<u8> = Vec::new();
        let ex = crate::exec::with_reused_buffer(|| run_on(&mut vec, h, &ExecOpts::default(), &no_seq));
        cmp("caller reuses one frame buffer", ex.build, ex.results, vec, &mut out);
    }
    // "in another muxer instance": the same sequence again on a thread on which earlier muxers
    // failed at finish (sink error at one of several write calls) or were dropped unfinished
    {
        let runs = std::thread::scope(|sc| {
            sc.spawn(|| {
                let mut runs = Vec::new();
                for k in [0usize, 1, 2, 3, 6, usize::MAX, usize::MAX - 1, usize::MAX - 2, usize::MAX - 3] {
                    if k == usize::MAX - 3 {
                        // a COMPLETED earlier recording of the same codec, fed through the
                        // convenience calls, with several key frames that each carry OTHER
                        // parameter sets / headers (whatever a probe or cache kept of them must
                        // not reach the next muxer)
                        let mut r = crate::util::Rng::new(h.hash() ^ 0x5eed_c17);
                        let mut cfg = h.cfg.clone();
                        cfg.audio = None;
                        cfg.meta = false;
                        let mut ops = Vec::new();
                        for i in 0..4 {
                            let kind = if i == 2 { crate::gen::frames::FrameKind::Delta } else { crate::gen::frames::FrameKind::KeyCfg };
                            ops.push(Op::EncodeVideo { data: crate::gen::frames::video_frame(&mut r, cfg.vcodec, kind, 12, false), dur_ms: 40 });
                        }
                        ops.push(Op::Finish(FinishKind::InPlace));
                        let other = History { cfg, ops };
                        let _ = run_on(Vec::<u8>::new(), &other, &ExecOpts::default(), &no_seq);
                    } else if k == usize::MAX - 2 {
                        // an earlier muxer whose SINK panicked in the middle of finish (caught by
                        // the caller, as a supervisor thread would)
                        struct PanicSink(usize);
                        impl Write for PanicSink {
                            fn write(&mut self, buf: &[u8]) -> std::io::Result<usize> {
                                if self.0 == 0 {
                                    panic!("sink panicked (injected)");
                                }
                                self.0 -= 1;
                                Ok(buf.len())
                            }
                            fn flush(&mut self) -> std::io::Result<()> {
                                Ok(())
                            }
                        }
                        // (every public call is made under catch_unwind by the executor)
                        let _ = run_on(PanicSink(1), h, &ExecOpts::default(), &no_seq);
                    } else if k == usize::MAX - 1 {
                        // a COMPLETED earlier recording with another cadence (every timestamp
                        // stretched by 25 %), finished and dropped before this one starts
                        let mut other = h.clone();
                        for op in other.ops.iter_mut() {
                            match op {
                                Op::WriteVideo { pts, .. } | Op::WriteAudio { pts, .. } => *pts = (f64::from_bits(*pts) * 1.25).to_bits(),
                                Op::WriteVideoDts { pts, dts, .. } => {
                                    *pts = (f64::from_bits(*pts) * 1.25).to_bits();
                                    *dts = (f64::from_bits(*dts) * 1.25).to_bits();
                                }
                                Op::EncodeVideo { dur_ms, .. } => *dur_ms = dur_ms.saturating_add(*dur_ms / 4 + 1),
                                _ => {}
                            }
                        }
                        let _ = run_on(Vec::<u8>::new(), &other, &ExecOpts::default(), &no_seq);
                    } else if k == usize::MAX {
                        let mut cut = h.clone();
                        cut.ops.retain(|o| !o.is_finish());
                        let _ = run_on(Vec::<u8>::new(), &cut, &ExecOpts::default(), &no_seq);
                    } else {
                        let bad = RecSink::new(crate::sink::Fault::FailWrite { k, kind: k % crate::sink::KINDS.len() });
                        let _ = run_on(bad, h, &ExecOpts::default(), &no_seq);
                    }
                    // the very next muxer on this thread must be unaffected
                    let mut vec: Vec<u8> = Vec::new();
                    let ex = run_on(&mut vec, h, &ExecOpts::default(), &no_seq);
                    runs.push((ex, vec));
                }
                runs
            })
            .join()
            .unwrap()
        });
        for (ex, bytes) in runs {
            cmp("same thread, right after a failed or abandoned muxer", ex.build, ex.results, bytes, &mut out);
        }
    }
    let _ = std::fs::create_dir_all(tmpdir);
    let path = format!("{}/c17-{}-{:x}.bin", tmpdir, std::process::id(), h.hash());
    if let Ok(f) = std::fs::File::create(&path) {
        let ex = run_on(f, h, &ExecOpts::default(), &no_seq);
        let bytes = std::fs::read(&path).unwrap_or_default();
        cmp("File", ex.build, ex.results, bytes, &mut out);
    }
    if let Ok(f) = std::fs::File::create(&path) {
        let ex = run_on(std::io::BufWriter::new(f), h, &ExecOpts::default(), &no_seq);
        let bytes = std::fs::read(&path).unwrap_or_default();
        cmp("BufWriter<File>", ex.build, ex.results, bytes, &mut out);
    }
    let _ = std::fs::remove_file(&path);
    obs.count("sink_and_move_comparisons", 1);
    out
}

/// (d) equivalent API paths.
/// Builder aliases and option order on the fragmented path: `video` vs `set_video_track`,
/// parameter sets before vs after the track call, a decoy track call first. All must give the
/// same build result, init segment and media segments.
pub fn check_frag_builder_paths(seed: u64, obs: &mut Obs) -> Vec<Violation> {
    use crate::gen::frag::{gen_frag_cfg, FragOpts};
    let mut out = Vec::new();
    let mut r = crate::util::Rng::new(seed ^ 0xF4A6_C17);
    let (mut cfg, _) = gen_frag_cfg(&mut r, &FragOpts::default());
    cfg.via_builder = true;
    cfg.timescale = 90_000;
    cfg.fragment_duration_ms = 2000;
    cfg.path = 0;
    if r.chance(1, 6) {
        // one required parameter missing: every path must refuse alike
        match cfg.vcodec {
            H264 => cfg.pps = None,
            H265 => cfg.vps = None,
            AV1 => cfg.av1_seq = None,
            _ => cfg.vp9 = None,
        }
    }
    let ops = vec![
        FOp::Init,
        FOp::Write { pts: 0, dts: 0, data: r.bytes(9), sync: true },
        FOp::Write { pts: 6000, dts: 3000, data: r.bytes(5), sync: false },
        FOp::Flush,
        FOp::Init,
    ];
    let base = crate::exec::run_frag(&FHistory { cfg: cfg.clone(), ops: ops.clone() }, &ExecOpts::default());
    if matches!(base.build, Res::Panic { .. }) || base.results.iter().any(|x| matches!(x, FRes::Panic { .. })) {
        obs.inconclusive += 1;
        return out;
    }
    for path in 1u8..8 {
        let mut c2 = cfg.clone();
        c2.path = path;
        let ex = crate::exec::run_frag(&FHistory { cfg: c2, ops: ops.clone() }, &ExecOpts::default());
        obs.count("fragment_builder_path_pairs", 1);
        if ex.build != base.build || ex.results != base.results {
            out.push(v(
                format!("fragment-builder-path-differs|bits={}", path),
                format!("codec {} via builder: path bits {} (1 = set_video_track, 2 = parameters before the track, 4 = decoy track call first) gives build {} / results that differ from the plain order (build {})", cfg.vcodec, path, ex.build.brief(), base.build.brief()),
            ));
            break;
        }
    }
    out
}

pub fn check_paths(h: &History, obs: &mut Obs) -> Vec<Violation> {
    let mut out = Vec::new();
    let r = reference(h);
    if r.results.iter().any(|x| x.is_panic()) {
        obs.inconclusive += 1;
        return out;
    }
    // builder aliases
    for bits in [1u8, 2, 4, 7, 8, 11, 12, 16, 24, 32, 40] {
        let mut h2 = h.clone();
        h2.cfg.path ^= bits;
        // path bit 4 moves creation time / language to the builder setters: same metadata only if
        // a Metadata object exists or is created by the setters; keep `meta` semantics equal
        if bits & 4 != 0 && !(h.cfg.meta || h.cfg.ctime.is_none() && h.cfg.lang.is_none()) {
            continue;
        }
        let o = reference(&h2);
        if o != r {
            out.push(v(format!("builder-alias-differs|bits={}", bits), format!("{} ; {}", h.brief(), first_diff(&r, &o, h))));
            break;
        }
        obs.count("alias_pairs", 1);
    }
    // finish entry points: only the last op, when it is the first finish
    if let Some(pos) = h.ops.iter().position(|o| o.is_finish()) {
        if pos + 1 == h.ops.len() {
            for k in [FinishKind::InPlace, FinishKind::InPlaceStats, FinishKind::Finish, FinishKind::FinishStats, FinishKind::Flush] {
                let mut h2 = h.clone();
                h2.ops[pos] = Op::Finish(k);
                let o = reference(&h2);
                let ok_same = o.results[pos].is_ok() == r.results[pos].is_ok();
                if o.bytes != r.bytes || !ok_same || o.results[..pos] != r.results[..pos] {
                    out.push(v(format!("finish-entry-point-differs|{:?}", k), format!("{} ; {}", h.brief(), first_diff(&r, &o, h))));
                    break;
                }
                // stats-bearing variants agree with each other
                if let (Res::OkStats(a), Res::OkStats(b)) = (&o.results[pos], &r.results[pos]) {
                    if a != b {
                        out.push(v("finish-stats-differ".into(), format!("{:?} vs {:?}", a, b)));
                    }
                }
                obs.count("finish_pairs", 1);
            }
        }
    }
    // the two in-place finish entry points leave the muxer in the same state: everything that
    // follows (writes, further finishes) returns the same, and the file is the same
    if let Some(pos) = h.ops.iter().position(|o| o.is_finish()) {
        if pos + 1 < h.ops.len() {
            let other = match &h.ops[pos] {
                Op::Finish(FinishKind::InPlace) => Some(FinishKind::InPlaceStats),
                Op::Finish(FinishKind::InPlaceStats) => Some(FinishKind::InPlace),
                _ => None,
            };
            if let Some(k) = other {
                let mut h2 = h.clone();
                h2.ops[pos] = Op::Finish(k);
                let o = reference(&h2);
                let later_same = o.results[pos + 1..].iter().zip(r.results[pos + 1..].iter()).all(|(a, b)| a == b);
                if o.bytes != r.bytes || o.results[..pos] != r.results[..pos] || o.results[pos].is_ok() != r.results[pos].is_ok() || !later_same {
                    out.push(v("in-place-finish-variants-differ-afterwards".into(), format!("{} ; {}", h.brief(), first_diff(&r, &o, h))));
                }
                obs.count("finish_pairs_with_later_calls", 1);
            }
        }
    }
    // write_video(pts, ..) is write_video_with_dts(pts, pts, ..): the same recording through either
    // entry point is the same file - as submitted, and re-timed onto an NTSC grid far from zero
    // (k + i * 1001/60000 s: every other frame sits on a half tick, where two ways of converting
    // seconds to ticks part company)
    let only_plain = h.ops.iter().filter(|o| o.is_video()).all(|o| matches!(o, Op::WriteVideo { .. }));
    if only_plain && h.ops.iter().any(|o| o.is_video()) {
        let hh = crate::util::fnv(h.brief().as_bytes());
        for variant in 0..2 {
            let mut a = h.clone();
            if variant == 1 {
                if h.cfg.audio_effective().is_some() {
                    continue;
                }
                let basis = 3600.0 * (1 + hh % 9) as f64;
                let per = [1001.0 / 60000.0, 1001.0 / 24000.0, 1001.0 / 30000.0][(hh / 16 % 3) as usize];
                let mut i = 0u32;
                for op in a.ops.iter_mut() {
                    if let Op::WriteVideo { pts, .. } = op {
                        *pts = (basis + i as f64 * per).to_bits();
                        i += 1;
                    }
                }
            }
            let ra = reference(&a);
            if ra.results.iter().any(|x| x.is_panic()) {
                continue;
            }
            let mut b = a.clone();
            for op in b.ops.iter_mut() {
                if let Op::WriteVideo { pts, data, key } = op.clone() {
                    *op = Op::WriteVideoDts { pts, dts: pts, data, key };
                }
            }
            let rb = reference(&b);
            let same_verdicts = ra.results.len() == rb.results.len() && ra.results.iter().zip(rb.results.iter()).all(|(x, y)| x.is_ok() == y.is_ok());
            if !same_verdicts || ra.bytes != rb.bytes {
                out.push(v(
                    format!("write_video-vs-write_video_with_dts|{}", if variant == 1 { "ntsc-grid" } else { "as-submitted" }),
                    format!("{} ; same timestamps through write_video and write_video_with_dts(pts, pts): verdicts equal = {}, files equal = {}", a.brief(), same_verdicts, ra.bytes == rb.bytes),
                ));
                break;
            }
            obs.count("write_video_vs_with_dts_pairs", 1);
        }
    }
    // AudioCodec::None vs no audio
    if h.cfg.audio.is_none() || h.cfg.audio.as_ref().map(|a| a.kind == A_NONE).unwrap_or(false) {
        let mut h2 = h.clone();
        h2.cfg.audio = if h.cfg.audio.is_none() { Some(AudioCfg { kind: A_NONE, rate: 44_100, channels: 2 }) } else { None };
        let o = reference(&h2);
        if o != r {
            out.push(v("audio-none-vs-no-audio".into(), format!("{} ; {}", h.brief(), first_diff(&r, &o, h))));
        }
        obs.count("audio_none_pairs", 1);
    }
    // encode_* vs explicit timestamps at the same ticks
    let all_encode_v = h.ops.iter().filter(|o| o.is_video()).all(|o| matches!(o, Op::EncodeVideo { .. }));
    let all_encode_a = h.ops.iter().filter(|o| o.is_audio()).all(|o| matches!(o, Op::EncodeAudio { .. }));
    if all_encode_v && all_encode_a && h.ops.iter().any(|o| o.is_video()) && r.results.iter().all(|x| x.is_ok()) {
        let rate = h.cfg.audio_effective().map(|a| a.rate as u64).unwrap_or(1).max(1);
        let mut h2 = h.clone();
        let (mut vms, mut asamp, mut vidx) = (0u64, 0u64, 0u64);
        let mut skip = false;
        for op in h2.ops.iter_mut() {
            match op.clone() {
                Op::EncodeVideo { data, dur_ms } => {
                    let key = super::c04::detect_key(h.cfg.vcodec, &data, vidx);
                    let Some(key) = key else {
                        skip = true;
                        break;
                    };
                    *op = Op::wv(vms as f64 / 1000.0, data, key);
                    vms += dur_ms as u64;
                    vidx += 1;
                }
                Op::EncodeAudio { data, samples } => {
                    // exact-rational tick of asamp/rate; skip near ties
                    let num = asamp as u128 * 90_000;
                    let frac = (num % rate as u128) as f64 / rate as f64;
                    if (frac - 0.5).abs() < 1e-4 {
                        skip = true;
                        break;
                    }
                    *op = Op::wa(asamp as f64 / rate as f64, data);
                    asamp += samples as u64;
                }
                _ => {}
            }
        }
        if !skip {
            let o = reference(&h2);
            if o.bytes != r.bytes {
                out.push(v("encode-vs-explicit-timestamps".into(), format!("{} ; {}", h.brief(), first_diff(&r, &o, &h2))));
            }
            obs.count("encode_pairs", 1);
        } else {
            obs.count("encode_pairs_skipped_ambiguous", 1);
        }
    }
    out
}

/// Muxers of unusual shapes finalised BEFORE the compared cases in a separate process (VH_PRELUDE):
/// recordings without frames, with an audio track that never got a frame, every codec, both
/// layouts, with and without metadata. Whatever they leave behind in process-wide state (caches
/// filled by the first caller, lazily initialised statics) must not change later results.
pub fn prelude(variant: u8) {
    use crate::gen::frames::{audio_frame, video_frame, FrameKind};
    let mut r = crate::util::Rng::new(0xC17_0001);
    let no_seq = |_q: u32| {};
    if variant == 2 {
        // the opposite kind of first caller: complete A/V recordings with several frames per
        // track come first (a first-caller-wins cache is then filled from a populated track,
        // not from an empty one as in variant 1)
        for vc in [VP9, AV1, H265, H264] {
            for audio in [AudioCfg { kind: A_OPUS, rate: 48_000, channels: 2 }, AudioCfg { kind: 1, rate: 44_100, channels: 1 }] {
                let mut cfg = Cfg::basic(vc);
                cfg.audio = Some(audio.clone());
                cfg.fast_start = Some(vc == H264 || vc == AV1);
                let mut ops = vec![Op::wv(0.0, video_frame(&mut r, vc, FrameKind::KeyCfg, 8, false), true)];
                for i in 0..3 {
                    ops.push(Op::wa(i as f64 * 0.02, audio_frame(&mut r, &audio, 8)));
                }
                ops.push(Op::wv(0.04, video_frame(&mut r, vc, FrameKind::Delta, 8, false), false));
                ops.push(Op::Finish(FinishKind::InPlaceStats));
                let _ = run_on(Vec::<u8>::new(), &History { cfg, ops }, &ExecOpts::default(), &no_seq);
            }
        }
    }
    for vc in [H264, H265, AV1, VP9] {
        for audio in [None, Some(AudioCfg { kind: 1, rate: 44_100, channels: 1 }), Some(AudioCfg { kind: A_OPUS, rate: 48_000, channels: 2 })] {
            for frames in [0usize, 1] {
                let mut cfg = Cfg::basic(vc);
                cfg.audio = audio.clone();
                cfg.fast_start = Some(frames == 0);
                cfg.meta = frames == 0;
                cfg.title = Some("prelude".into());
                let mut ops = Vec::new();
                if frames > 0 {
                    ops.push(Op::wv(0.0, video_frame(&mut r, vc, FrameKind::KeyCfg, 8, false), true));
                    if let (Some(a), true) = (&audio, vc == AV1) {
                        ops.push(Op::wa(0.0, audio_frame(&mut r, a, 8)));
                    }
                }
                ops.push(Op::Finish(FinishKind::InPlaceStats));
                let _ = run_on(Vec::<u8>::new(), &History { cfg, ops }, &ExecOpts::default(), &no_seq);
            }
        }
    }
}
