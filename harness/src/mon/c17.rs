//! C17 monitor (filled in below)
