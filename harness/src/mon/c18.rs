//! C18 — title, creation date and language are stored faithfully and touch nothing else.

use super::*;
use crate::model::basic::iso8601;

fn v(sig: String, detail: String) -> Violation {
    Violation::new("C18", sig, detail)
}

/// Metadata clauses on a finished file.
pub fn check_meta(a: &Analysis, obs: &mut Obs) -> Vec<Violation> {
    let mut out = Vec::new();
    if !a.finished_ok() {
        return out;
    }
    let cfg = &a.h.cfg;
    let has_meta = cfg.has_meta();
    let title = if cfg.meta { cfg.title.as_ref() } else { None };
    let ctime = if has_meta { cfg.ctime } else { None };
    let lang = if has_meta { cfg.lang.as_ref() } else { None };
    let names: Vec<_> = a.movie.ilst.iter().filter(|i| &i.0 == b"\xa9nam").collect();
    let days: Vec<_> = a.movie.ilst.iter().filter(|i| &i.0 == b"\xa9day").collect();
    match title {
        Some(t) => {
            if names.len() != 1 {
                out.push(v(format!("title|item-count x{}", names.len()), format!("title configured ({} bytes) but {} name items", t.len(), names.len())));
            } else {
                if names[0].2 != t.as_bytes() {
                    out.push(v("title|bytes".into(), format!("name item holds {} ; configured title {}", crate::util::hex_short(&names[0].2), crate::util::hex_short(t.as_bytes()))));
                }
                if names[0].1 != 1 {
                    out.push(v("title|data-type".into(), format!("data type indicator {}", names[0].1)));
                }
            }
            obs.count("titles_checked", 1);
        }
        None => {
            if !names.is_empty() {
                out.push(v("title|unexpected-item".into(), "name item present without a configured title".into()));
            }
        }
    }
    match ctime {
        Some(c) => {
            let want = iso8601(c);
            if days.len() != 1 {
                out.push(v(format!("date|item-count x{}", days.len()), format!("creation time {} configured but {} date items", c, days.len())));
            } else if days[0].2 != want.as_bytes() {
                let year = crate::model::basic::civil_from_days(c / 86_400).0;
                out.push(v(
                    format!("date|value|{}", if year <= 9999 { "year<=9999" } else { "year>9999" }),
                    format!("unix time {} stored as {:?} ; expected {:?}", c, String::from_utf8_lossy(&days[0].2), want),
                ));
            }
            obs.count("dates_checked", 1);
        }
        None => {
            if !days.is_empty() {
                out.push(v("date|unexpected-item".into(), "date item present without a configured creation time".into()));
            }
        }
    }
    if title.is_none() && ctime.is_none() && a.movie.has_udta {
        out.push(v("udta|present-without-title-or-date".into(), "udta box emitted although neither title nor creation time is configured".into()));
    }
    if (title.is_some() || ctime.is_some()) && !a.movie.has_udta {
        out.push(v("udta|missing".into(), "title/creation time configured but no udta box".into()));
    }
    // language in every track's media header
    let well_formed = |l: &str| l.len() == 3 && l.bytes().all(|b| b.is_ascii_lowercase());
    let want = match lang {
        Some(l) if well_formed(l) => Some(l.clone()),
        Some(_) => None, // malformed codes: only no-panic / well-formedness is claimed
        None => Some("und".to_string()),
    };
    if let Some(w) = want {
        for t in &a.movie.tracks {
            let got = t.mdhd.language();
            if got != w {
                out.push(v(
                    format!("language|{}", if lang.is_some() { "configured" } else { "default" }),
                    format!("track {} mdhd language {:?} ; expected {:?}", t.track_id, got, w),
                ));
                break;
            }
        }
        obs.count("languages_checked", 1);
    } else {
        obs.count("malformed_languages_exercised", 1);
    }
    out
}

/// "Metadata never changes any sample, timing or configuration": compare with the same history
/// run without metadata.
pub fn check_isolation(with: &Analysis, without: &Analysis, obs: &mut Obs) -> Vec<Violation> {
    let mut out = Vec::new();
    for (i, (r1, r2)) in with.ex.results.iter().zip(without.ex.results.iter()).enumerate() {
        let mask = |r: &Res| match r {
            Res::OkStats(s) => Res::OkStats(Stats { bytes_written: 0, ..s.clone() }),
            o => o.clone(),
        };
        if mask(r1) != mask(r2) {
            out.push(v(format!("isolation|result-differs|{}", with.h.ops[i].name()), format!("call #{}: with metadata {} ; without {}", i, r1.brief(), r2.brief())));
            return out;
        }
    }
    if !with.finished_ok() || !without.finished_ok() {
        return out;
    }
    let strip = |a: &Analysis| -> Vec<String> {
        let mut d = Vec::new();
        d.push(format!("mvhd ts {} dur {} next {}", a.movie.mvhd.timescale, a.movie.mvhd.duration, a.movie.mvhd.next_track_id));
        for t in &a.movie.tracks {
            d.push(format!("track {} {} ts {} dur {}", t.track_id, bmff::fourcc(&t.handler), t.mdhd.timescale, t.mdhd.duration));
            d.push(format!("entry {:x}", crate::util::fnv(&t.entry)));
            d.push(format!("stts {:?} ctts {:?} stss {:?} sizes {:x}", t.stts, t.ctts, t.stss, crate::util::fnv(format!("{:?}", t.sizes).as_bytes())));
            let mut hh = 0u64;
            for s in &t.samples {
                match a.sample_bytes(s) {
                    Some(b) => hh = hh.rotate_left(7) ^ crate::util::fnv(b),
                    None => hh = hh.rotate_left(7) ^ 0xdead,
                }
            }
            d.push(format!("payload {:x}", hh));
        }
        d
    };
    let (d1, d2) = (strip(with), strip(without));
    if d1 != d2 {
        let diff = d1.iter().zip(d2.iter()).find(|(x, y)| x != y);
        out.push(v(
            format!("isolation|description-differs|{}", diff.map(|d| d.0.split(' ').next().unwrap_or("?")).unwrap_or("length")),
            format!("with metadata: {:?} ; without: {:?}", diff.map(|d| d.0), diff.map(|d| d.1)),
        ));
    }
    // offsets shifted consistently: the resolver succeeds on the file with metadata
    let mut scratch = Obs::default();
    let c1 = super::c01::check(with, &mut scratch);
    let c2 = super::c01::check(without, &mut scratch);
    if c1.len() != c2.len() {
        out.push(v("isolation|resolver".into(), format!("sample resolution differs with metadata: {:?} vs {:?}", c1.first().map(|x| &x.sig), c2.first().map(|x| &x.sig))));
    }
    obs.count("isolation_pairs", 1);
    out
}

/// One finished empty muxer per creation time: the date item must be the ISO-8601 date.
pub fn check_date(unix: u64, obs: &mut Obs) -> Vec<Violation> {
    use crate::exec::{run, ExecOpts};
    let mut cfg = Cfg::basic(H264);
    cfg.meta = true;
    cfg.ctime = Some(unix);
    cfg.fast_start = Some(unix % 2 == 0);
    let h = History { cfg, ops: vec![Op::Finish(FinishKind::InPlace)] };
    let (ex, sink) = run(&h, &ExecOpts::default());
    let bytes = sink.bytes();
    let a = Analysis::new(&h, &ex, &bytes, &[]);
    obs.evaluations += 1;
    check_meta(&a, obs)
}

pub fn check_lang(code: &str, fragmented: bool, obs: &mut Obs) -> Vec<Violation> {
    use crate::exec::{run, run_frag, ExecOpts};
    obs.evaluations += 1;
    if fragmented {
        let fc = FragCfg { vcodec: H264, width: 640, height: 480, via_builder: true, timescale: 90_000, fragment_duration_ms: 2000, sps: Some(vec![0x67, 1, 2, 3]), pps: Some(vec![0x68, 1]), vps: None, av1_seq: None, vp9: None, lang: Some(code.to_string()), path: 0 };
        let h = FHistory { cfg: fc, ops: vec![FOp::Init] };
        let ex = run_frag(&h, &ExecOpts::default());
        if let Some(FRes::Bytes(b)) = ex.results.first() {
            let tree = bmff::parse_tree(b);
            let m = bmff::parse_movie(b, &tree);
            for t in &m.tracks {
                if t.mdhd.language() != code {
                    return vec![v("language|fragmented-init".into(), format!("builder language {:?} but init segment mdhd says {:?}", code, t.mdhd.language()))];
                }
            }
            obs.count("fragmented_languages_checked", 1);
        }
        return vec![];
    }
    let mut cfg = Cfg::basic(H264);
    cfg.audio = Some(AudioCfg { kind: 7, rate: 48_000, channels: 2 });
    cfg.path = 4;
    cfg.lang = Some(code.to_string());
    let h = History { cfg, ops: vec![Op::Finish(FinishKind::InPlace)] };
    let (ex, sink) = run(&h, &ExecOpts::default());
    let bytes = sink.bytes();
    let a = Analysis::new(&h, &ex, &bytes, &[]);
    check_meta(&a, obs)
}

/// Malformed language codes: the stored value is not specified, but neither muxer may panic and
/// what it writes must still be a well-formed media header.
pub fn check_malformed_lang(code: &str, obs: &mut Obs) -> Vec<Violation> {
    use crate::exec::{run, run_frag, ExecOpts};
    let mut out = Vec::new();
    obs.count("malformed_language_codes_tried", 1);
    let fc = FragCfg { vcodec: H264, width: 640, height: 480, via_builder: true, timescale: 90_000, fragment_duration_ms: 2000, sps: Some(vec![0x67, 1, 2, 3]), pps: Some(vec![0x68, 1]), vps: None, av1_seq: None, vp9: None, lang: Some(code.to_string()), path: 0 };
    let h = FHistory { cfg: fc, ops: vec![FOp::Init] };
    let ex = run_frag(&h, &ExecOpts::default());
    if ex.build.is_panic() || ex.results.iter().any(|r| matches!(r, FRes::Panic { .. })) {
        out.push(v("language|malformed-code-panics|fragmented".into(), format!("language {:?}: building the fragmented muxer / init_segment() panicked", code)));
    } else if let Some(FRes::Bytes(b)) = ex.results.first() {
        let tree = bmff::parse_tree(b);
        if !tree.errors.is_empty() {
            out.push(v("language|malformed-code-breaks-init-segment".into(), format!("language {:?}: init segment does not parse: {:?}", code, tree.errors.first())));
        }
    }
    let mut cfg = Cfg::basic(H264);
    cfg.path = 4;
    cfg.lang = Some(code.to_string());
    let hp = History { cfg, ops: vec![Op::Finish(FinishKind::InPlace)] };
    let (exp, sink) = run(&hp, &ExecOpts::default());
    if exp.any_panic() {
        out.push(v("language|malformed-code-panics|progressive".into(), format!("language {:?}: build / finish panicked", code)));
    } else if exp.results.last().map(|r| r.is_ok()).unwrap_or(false) {
        let b = sink.bytes();
        let tree = bmff::parse_tree(&b);
        if !tree.errors.is_empty() {
            out.push(v("language|malformed-code-breaks-file".into(), format!("language {:?}: file does not parse: {:?}", code, tree.errors.first())));
        }
    }
    out
}
