//! C18 monitor (filled in below)
