//! C16 monitor (filled in below)
