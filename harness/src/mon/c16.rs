//! C16 — no numeric field is silently truncated; declared durations match the tables.
//! (a) the independent reader recomputes every numeric field from the ledger and demands exact
//!     equality whenever the producing call returned Ok; (b) hook H2: a lossy narrowing cast inside
//!     a call that returned Ok is a violation by itself.

use super::*;
use crate::exec::{CastEv, FExec};
use crate::specdec as sd;

fn v(sig: String, detail: String) -> Violation {
    Violation::new("C16", sig, detail)
}

/// (b) lossy casts observed during calls that returned Ok
pub fn check_casts(casts: &[CastEv], ok_at: &dyn Fn(usize) -> bool, opname: &dyn Fn(usize) -> String, obs: &mut Obs) -> Vec<Violation> {
    let mut out = Vec::new();
    obs.count("cast_events_observed", casts.len() as u64);
    for c in casts {
        if !c.fits {
            obs.count("lossy_cast_events", 1);
            if ok_at(c.op) {
                let sig = format!("lossy-cast|{}", c.site);
                if !out.iter().any(|x: &Violation| x.sig == sig) {
                    out.push(v(sig, format!("call #{} {} returned Ok although value {} does not fit the {}-bit {} field at {}", c.op, opname(c.op), c.value, c.bits, if c.signed { "signed" } else { "unsigned" }, c.site)));
                }
            } else {
                obs.count("lossy_casts_in_failed_calls(ok)", 1);
            }
        }
    }
    out
}

fn dur_ms(ticks: u64) -> (u64, u64) {
    // movie-timescale duration of a media duration: floor .. ceil
    let lo = (ticks as u128 * 1000 / 90_000) as u64;
    let hi = ((ticks as u128 * 1000 + 89_999) / 90_000) as u64;
    (lo, hi)
}

/// (a) recompute the numeric fields of a finished progressive file.
pub fn check_file(a: &Analysis, obs: &mut Obs) -> Vec<Violation> {
    let mut out = Vec::new();
    if !a.finished_ok() {
        return out;
    }
    let cfg = &a.h.cfg;
    let mut track_durs: Vec<(u32, u64)> = Vec::new();
    // ---- per track: deltas, offsets, media duration
    for (name, track) in [("video", a.video_track()), ("audio", a.audio_track())] {
        let Some(t) = track else { continue };
        let exp_dts: Vec<Option<u64>> = if name == "video" { a.ledger.video.iter().map(|f| f.dts.lo()).collect() } else { a.ledger.audio.iter().map(|f| f.pts.lo()).collect() };
        let exact = exp_dts.iter().all(|x| x.is_some()) && !a.ledger.any_ambiguous;
        let n = exp_dts.len();
        if t.samples.len() != n {
            continue;
        }
        let sum: u64 = t.samples.iter().map(|s| s.dur as u64).sum();
        track_durs.push((t.track_id, sum));
        if exact && n >= 2 {
            for i in 0..n - 1 {
                let Some(want) = exp_dts[i + 1].unwrap().checked_sub(exp_dts[i].unwrap()) else {
                    // accepted samples whose submitted times go backwards: no 32-bit delta can be exact
                    out.push(v(format!("{}|stts.delta|accepted-times-decrease", name), format!("samples {}..{}: submitted ticks {:?} then {:?}", i + 1, i + 2, exp_dts[i], exp_dts[i + 1])));
                    break;
                };
                if want > u32::MAX as u64 {
                    out.push(v(format!("{}|stts.delta|gap-does-not-fit-32-bits-but-write-accepted", name), format!("samples {}..{}: gap {} ticks", i + 1, i + 2, want)));
                    break;
                }
                if t.samples[i].dur as u64 != want {
                    out.push(v(format!("{}|stts.delta|value", name), format!("sample {}: stts delta {} but submitted timestamps differ by {} ticks", i + 1, t.samples[i].dur, want)));
                    break;
                }
            }
            obs.count("deltas_recomputed", (n - 1) as u64);
        }
        if name == "video" && exact {
            for (i, (s, f)) in t.samples.iter().zip(a.ledger.video.iter()).enumerate() {
                if let (Some(p), Some(d)) = (f.pts.lo(), f.dts.lo()) {
                    let want = p as i128 - d as i128;
                    if s.cts_off as i128 != want {
                        let fits = want >= i32::MIN as i128 && want <= i32::MAX as i128;
                        out.push(v(
                            format!("video|ctts.offset|{}", if fits { "value" } else { "does-not-fit-32-bits-but-write-accepted" }),
                            format!("sample {}: composition offset {} but pts - dts = {} ticks", i + 1, s.cts_off, want),
                        ));
                        break;
                    }
                }
            }
        }
        // declared media duration = sum of the table
        if t.mdhd.duration != sum {
            out.push(v(
                format!("{}|mdhd.duration|{}", name, if sum > u32::MAX as u64 { "sum-exceeds-32-bits" } else { "value" }),
                format!("mdhd (version {}) duration {} but the sample durations add up to {}", t.mdhd.version, t.mdhd.duration, sum),
            ));
        }
        obs.count("media_durations_recomputed", 1);
    }
    // ---- movie duration = longest track in movie timescale (+-1)
    if let Some(&(_, longest)) = track_durs.iter().max_by_key(|x| x.1) {
        if a.movie.mvhd.timescale != 1000 {
            // the declared movie duration only means something together with its timescale; the
            // library's is 1000. Anything else (a version-1 header with shifted fields reads as 0)
            // leaves the declared duration inconsistent with the tables.
            let ts = a.movie.mvhd.timescale as u128;
            let d = a.movie.mvhd.duration as u128;
            let ok = ts != 0 && {
                let in_ticks = d * 90_000 / ts;
                let tol = 90_000 / ts + 1;
                in_ticks + tol >= longest as u128 && in_ticks <= longest as u128 + tol
            };
            if !ok {
                out.push(v("mvhd.duration|timescale".into(), format!("mvhd (version {}) declares duration {} at timescale {} but the longest track lasts {} ticks of 90 kHz", a.movie.mvhd.version, d, ts, longest)));
            }
            obs.count("movie_durations_recomputed", 1);
        } else {
            let (lo, hi) = dur_ms(longest);
            let d = a.movie.mvhd.duration;
            if d + 1 < lo || d > hi + 1 {
                let video_sum = a.video_track().map(|t| t.samples.iter().map(|s| s.dur as u64).sum::<u64>()).unwrap_or(0);
                let how = if hi > u32::MAX as u64 {
                    "exceeds-32-bits"
                } else if longest != video_sum {
                    "audio-track-longer-than-video"
                } else {
                    "value"
                };
                out.push(v(format!("mvhd.duration|{}", how), format!("mvhd duration {} ms but the longest track lasts {} ticks = {}..{} ms (track durations {:?})", d, longest, lo, hi, track_durs)));
            }
            obs.count("movie_durations_recomputed", 1);
        }
    }
    // ---- tkhd durations (strict decode; skipped when the tkhd layout itself is invalid: C19)
    if let Some(moov) = a.tree.find_top(b"moov").first() {
        for trak in moov.children_of(b"trak") {
            if let Some(tk) = trak.child(b"tkhd") {
                let mut dev = Vec::new();
                match sd::tkhd(tk.payload(a.bytes), &mut dev) {
                    Some(h) => {
                        if let Some(&(_, sum)) = track_durs.iter().find(|x| x.0 == h.track_id) {
                            let (lo, hi) = dur_ms(sum);
                            if h.duration + 1 < lo || h.duration > hi + 1 {
                                out.push(v("tkhd.duration|value".into(), format!("track {} tkhd duration {} but its samples last {}..{} ms", h.track_id, h.duration, lo, hi)));
                            }
                        }
                    }
                    None => obs.count("tkhd_duration_not_judged(tkhd layout invalid: C19)", 1),
                }
            }
        }
    }
    // ---- dimensions, rates, channel counts, parameter-set lengths
    if let Some(vt) = a.video_track() {
        let mut dev = Vec::new();
        if let Some(ve) = sd::visual_entry(&vt.entry, &mut dev) {
            if (ve.width as u32, ve.height as u32) != (cfg.width, cfg.height) {
                out.push(v("sample-entry.dimensions|truncated".into(), format!("sample entry {}x{} but configured {}x{}", ve.width, ve.height, cfg.width, cfg.height)));
            }
            // parameter sets byte-exact (lengths are 16-bit fields)
            if let Some(first) = a.ledger.video.first() {
                let key = a.h.ops[first.op].data().unwrap_or(&[]);
                let mut scratch = Obs::default();
                let side = super::c07::Side::default();
                // C07's comparison without its ">65535 delegated to C16" skip: replicate the size test
                let units = crate::model::basic::units(key);
                let big = units.iter().any(|u| u.len() > 65_535 && matches!(cfg.vcodec, H264 | H265) && (if cfg.vcodec == H264 { matches!(u[0] & 0x1f, 7 | 8) } else { matches!((u[0] >> 1) & 0x3f, 32..=34) }));
                if big {
                    out.push(v(format!("{}.parameter-set-length|does-not-fit-16-bits-but-write-accepted", if cfg.vcodec == H264 { "avcC" } else { "hvcC" }), "a parameter set longer than 65535 bytes was accepted and stored with a 16-bit length".into()));
                }
                let _ = (&mut scratch, &side);
            }
        }
    }
    if let (Some(at), Some(ac)) = (a.audio_track(), cfg.audio_effective()) {
        let mut dev = Vec::new();
        if let Some(ae) = sd::audio_entry(&at.entry, &mut dev) {
            let rate = if ac.is_opus() { 48_000 } else { ac.rate };
            let want = (rate as u64) << 16;
            if ae.rate_fixed as u64 != want {
                out.push(v(
                    format!("{}.samplerate|{}", bmff::fourcc(&ae.typ), if want > u32::MAX as u64 { "rate-above-65535-wraps" } else { "value" }),
                    format!("sample entry rate field {:#010x} but {} Hz is {:#x} as 16.16", ae.rate_fixed, rate, want),
                ));
            }
            if ae.channels != ac.channels {
                out.push(v("audio-entry.channelcount|value".into(), format!("{} vs configured {}", ae.channels, ac.channels)));
            }
            if ac.is_opus() {
                if let Some(d) = ae.children.iter().find(|c| &c.0 == b"dOps").and_then(|c| sd::dops(&c.1, &mut dev)) {
                    if d.channels as u16 != ac.channels {
                        out.push(v(format!("dOps.OutputChannelCount|{}", if ac.channels > 255 { "channels-above-255-truncated" } else { "value" }), format!("dOps channels {} but configured {}", d.channels, ac.channels)));
                    }
                }
            }
        }
    }
    // tkhd dimensions (16.16) when the layout is valid
    if let Some(moov) = a.tree.find_top(b"moov").first() {
        if let Some(tk) = moov.children_of(b"trak").first().and_then(|t| t.child(b"tkhd")) {
            let mut dev = Vec::new();
            if let Some(h) = sd::tkhd(tk.payload(a.bytes), &mut dev) {
                if (h.width as u64, h.height as u64) != ((cfg.width as u64) << 16, (cfg.height as u64) << 16) {
                    out.push(v("tkhd.dimensions|value".into(), format!("tkhd {:#x} x {:#x} for {}x{}", h.width, h.height, cfg.width, cfg.height)));
                }
            }
        }
    }
    obs.count("files_recomputed", 1);
    out
}

/// Fragmented: trun durations / offsets / tfdt recomputed; init-segment dimensions and set lengths.
pub fn check_frag(h: &FHistory, ex: &FExec, obs: &mut Obs) -> Vec<Violation> {
    let mut out = Vec::new();
    let mut queue: Vec<(u64, u64, usize)> = Vec::new();
    for (op, res) in h.ops.iter().zip(ex.results.iter()) {
        match (op, res) {
            (FOp::Write { pts, dts, data, .. }, FRes::Ok) => queue.push((*pts, *dts, data.len())),
            (FOp::Flush, FRes::Seg(Some(bytes))) => {
                let tree = bmff::parse_tree(bytes);
                let f = bmff::parse_fragment(bytes, &tree, None);
                if f.samples.len() == queue.len() {
                    for k in 0..queue.len() {
                        if k + 1 < queue.len() {
                            // (accepted decode times going backwards would be C10's violation; no
                            // duration can be exact then)
                            let want = queue[k + 1].1.saturating_sub(queue[k].1);
                            if f.samples[k].dur as u64 != want {
                                out.push(v(
                                    format!("trun.duration|{}", if want > u32::MAX as u64 { "gap-does-not-fit-32-bits-but-segment-emitted" } else { "value" }),
                                    format!("sample {} duration {} but dts gap {}", k + 1, f.samples[k].dur, want),
                                ));
                                break;
                            }
                        }
                        let want = queue[k].0 as i128 - queue[k].1 as i128;
                        if f.samples[k].cts_off as i128 != want {
                            out.push(v(
                                format!("trun.composition-offset|{}", if want > i32::MAX as i128 || want < i32::MIN as i128 { "does-not-fit-32-bits-but-segment-emitted" } else { "value" }),
                                format!("sample {} offset {} but pts - dts = {}", k + 1, f.samples[k].cts_off, want),
                            ));
                            break;
                        }
                        if f.samples[k].size as usize != queue[k].2 {
                            out.push(v("trun.size|value".into(), format!("sample {} size {} but {} bytes were written", k + 1, f.samples[k].size, queue[k].2)));
                            break;
                        }
                    }
                    obs.count("segments_recomputed", 1);
                }
                queue.clear();
            }
            (FOp::Init, FRes::Bytes(b)) => {
                let tree = bmff::parse_tree(b);
                let m = bmff::parse_movie(b, &tree);
                if let Some(t) = m.tracks.first() {
                    let mut dev = Vec::new();
                    if let Some(ve) = sd::visual_entry(&t.entry, &mut dev) {
                        if (ve.width as u32, ve.height as u32) != (h.cfg.width, h.cfg.height) {
                            out.push(v("init.sample-entry.dimensions|truncated".into(), format!("sample entry {}x{} but configured {}x{}", ve.width, ve.height, h.cfg.width, h.cfg.height)));
                        }
                    }
                    for (name, set) in [("sps", &h.cfg.sps), ("pps", &h.cfg.pps), ("vps", &h.cfg.vps)] {
                        if let Some(s) = set {
                            if s.len() > 65_535 && matches!(h.cfg.vcodec, H264 | H265) && !(name == "vps" && h.cfg.vcodec == H264) {
                                out.push(v(format!("init.{}-length|does-not-fit-16-bits-but-init-emitted", name), format!("{} of {} bytes stored with a 16-bit length", name, s.len())));
                            }
                        }
                    }
                }
                if let Some(moov) = tree.find_top(b"moov").first() {
                    if let Some(tk) = moov.children_of(b"trak").first().and_then(|t| t.child(b"tkhd")) {
                        let mut dev = Vec::new();
                        if let Some(hd) = sd::tkhd(tk.payload(b), &mut dev) {
                            if (hd.width as u64, hd.height as u64) != ((h.cfg.width as u64) << 16, (h.cfg.height as u64) << 16) {
                                out.push(v("init.tkhd.dimensions|truncated".into(), format!("tkhd {:#x} x {:#x} for {}x{}", hd.width, hd.height, h.cfg.width, h.cfg.height)));
                            }
                        }
                    }
                }
                obs.count("init_segments_recomputed", 1);
            }
            _ => {}
        }
        if !out.is_empty() {
            break;
        }
    }
    out
}
