//! C04 — calls succeed iff the documented input contract holds; errors name the violation.
//!
//! Executable reference model of docs/contract.md + rustdoc. For every call it computes the set V
//! of preconditions the call violates, judged against the ledger of *accepted* calls so far.
//! Verdict: `Ok <=> V = {}` and `Err(e) => class(e) in V`. Named don't-care zones accept either.

use super::*;
use crate::model::av1::{scan_for_seq_hdr, SeqScan};
use crate::model::basic::{adts, opus, ticks, units, Adts, OpusVerdict, Ticks};
use std::collections::BTreeSet;

#[derive(Clone, Debug, Default)]
pub struct State {
    pub finished: bool,
    pub failed_finish: bool,
    pub first_v_pts: Option<f64>,
    pub last_v_pts: Option<f64>,
    pub prev_v_dts_s: Option<f64>,
    pub prev_v_dts: Option<Ticks>,
    pub last_a_pts: Option<f64>,
    pub prev_a: Option<Ticks>,
    pub vclock: f64,
    pub aclock: f64,
    pub rejected_before_first_video: bool,
    pub first_dts_ticks: Option<u64>,
    pub last_dts_ticks: Option<u64>,
    pub first_a_ticks: Option<u64>,
    pub last_a_ticks: Option<u64>,
}

impl State {
    pub fn name(&self) -> &'static str {
        if self.failed_finish {
            "after-failed-finish"
        } else if self.finished {
            "finished"
        } else if self.first_v_pts.is_none() {
            if self.rejected_before_first_video {
                "fresh-after-reject"
            } else {
                "fresh"
            }
        } else {
            "streaming"
        }
    }
}

#[derive(Clone, Debug, Default)]
pub struct Judgement {
    pub v: BTreeSet<ErrClass>,
    /// the first don't-care zone that applies (reported in evidence / details)
    pub zone: Option<&'static str>,
    /// every zone that applies: a call can sit in several at once (e.g. a timestamp beyond 2^53
    /// ticks AND a first frame whose header is not decidable)
    pub zones: Vec<&'static str>,
}

impl Judgement {
    pub fn add_zone(&mut self, z: &'static str) {
        self.zone.get_or_insert(z);
        if !self.zones.contains(&z) {
            self.zones.push(z);
        }
    }
    fn zone_allows(&self, c: ErrClass) -> bool {
        self.zones.iter().any(|z| zone_allows(z, c))
    }
}

#[derive(Clone, Copy, Debug, PartialEq, Eq)]
pub enum HasCfg {
    Yes,
    No,
    Unclear,
}

/// Does this first frame carry its codec configuration (model side)?
pub fn carries_config(codec: u8, data: &[u8]) -> HasCfg {
    match codec {
        H264 => {
            let u = units(data);
            let sps = u.iter().any(|n| n[0] & 0x1f == 7);
            let pps = u.iter().any(|n| n[0] & 0x1f == 8);
            if sps && pps {
                HasCfg::Yes
            } else {
                HasCfg::No
            }
        }
        H265 => {
            let u = units(data);
            let has = |t: u8| u.iter().any(|n| (n[0] >> 1) & 0x3f == t);
            if has(32) && has(33) && has(34) {
                HasCfg::Yes
            } else {
                HasCfg::No
            }
        }
        AV1 => match scan_for_seq_hdr(data) {
            SeqScan::Valid(..) => HasCfg::Yes,
            SeqScan::NoSeqHdr => HasCfg::No,
            SeqScan::Unclear => HasCfg::Unclear,
        },
        _ => {
            // VP9 "accepted form": 49 83 42 marker, key frame bits, then header fields
            if data.len() < 3 || data[0] != 0x49 || data[1] != 0x83 || data[2] != 0x42 {
                return HasCfg::No;
            }
            if data.len() < 6 {
                return HasCfg::No;
            }
            if (data[3] >> 5) & 1 != 0 || (data[3] >> 4) & 1 != 0 {
                return HasCfg::No; // show_existing_frame / non-key frame type
            }
            // header present; whether the remaining fields parse is only known for generated frames
            if vp9_header_plausible(data) {
                HasCfg::Yes
            } else {
                HasCfg::Unclear
            }
        }
    }
}

/// The generator's frames have two complete base-128 integers (<= 3 bytes each here), optionally
/// a render size, and either >= 4 bytes after the colour byte or (compact form) none at all.
/// Recognise exactly that.
fn vp9_header_plausible(d: &[u8]) -> bool {
    let profile = d[3] >> 6;
    let mut o = 5 + (profile >= 2) as usize;
    let mut var = |o: &mut usize| -> bool {
        for _ in 0..3 {
            let Some(&b) = d.get(*o) else { return false };
            *o += 1;
            if b & 0x80 == 0 {
                return true;
            }
        }
        false
    };
    if !var(&mut o) || !var(&mut o) {
        return false;
    }
    let Some(&flag) = d.get(o) else { return false };
    if o + 1 == d.len() {
        // compact form: the colour byte is the last byte of the frame (no render size can follow,
        // so its bits 2..3 are colour-space bits): a key frame with a complete configuration
        return true;
    }
    if flag & 0x0c != 0 {
        o += 1;
        if !var(&mut o) || !var(&mut o) {
            return false;
        }
    }
    d.len() >= o + 4
}

/// encode_video's key decision per the documented detector: Some(key) or None (don't-care Z9).
pub fn detect_key(codec: u8, data: &[u8], frame_index: u64) -> Option<bool> {
    match codec {
        H264 => {
            let u = units(data);
            if u.iter().any(|n| n[0] & 0x1f == 5) {
                Some(true)
            } else if !u.is_empty() && u.iter().all(|n| matches!(n[0] & 0x1f, 1..=4 | 6 | 9..=31)) {
                Some(false)
            } else {
                None
            }
        }
        H265 => {
            let u = units(data);
            let t = |n: &&[u8]| (n[0] >> 1) & 0x3f;
            if u.iter().any(|n| (19..=21).contains(&t(n))) {
                Some(true)
            } else if !u.is_empty() && u.iter().all(|n| t(n) <= 15 || t(n) >= 35) {
                Some(false)
            } else {
                None
            }
        }
        AV1 => Some(frame_index == 0),
        _ => {
            if data.len() >= 4 && data[0] == 0x49 && data[1] == 0x83 && data[2] == 0x42 {
                Some((data[3] >> 5) & 1 == 0 && (data[3] >> 4) & 1 == 0)
            } else {
                None
            }
        }
    }
}

fn gap_judge(prev: &Ticks, cur: &Ticks, j: &mut Judgement) {
    if let (Some(pl), Some(ph), Some(cl), Some(ch)) = (prev.lo(), prev.hi(), cur.lo(), cur.hi()) {
        let max = u32::MAX as u64;
        if cl > ph && cl - ph > max {
            j.v.insert(ErrClass::GapOverflow);
        } else if ch > pl && ch - pl > max {
            j.add_zone("Z2b gap within one tick of 2^32");
        }
    }
}

fn judge_video(cfg: &Cfg, st: &State, pts: f64, dts: f64, explicit_dts: bool, data: &[u8], key: Option<bool>, j: &mut Judgement) {
    use ErrClass as C;
    if st.finished {
        j.v.insert(C::Finished);
    }
    if data.is_empty() {
        j.v.insert(C::EmptyVideo);
    }
    let mut ts_ok = true;
    if !pts.is_finite() {
        j.v.insert(C::NonFiniteVideoPts);
        ts_ok = false;
    } else if pts < 0.0 {
        j.v.insert(C::NegativeVideoPts);
        ts_ok = false;
    }
    if explicit_dts {
        if !dts.is_finite() {
            j.v.insert(C::NonFiniteVideoDts);
            ts_ok = false;
        } else if dts < 0.0 {
            j.v.insert(C::NegativeVideoDts);
            ts_ok = false;
        }
    }
    if ts_ok {
        let (tp, td) = (ticks(pts), ticks(dts));
        if tp.is_huge() || td.is_huge() {
            j.add_zone("Z2 timestamp at/over 2^53 ticks");
        }
        if let (Some(p), Some(d)) = (tp.lo(), td.lo()) {
            // the composition offset is a signed 32-bit field: -2^31 ..= 2^31 - 1 fit. With exact
            // tick values the zone starts exactly where the field ends; with a rounding tie on
            // either side one tick of slack is kept.
            let o = p as i128 - d as i128;
            let slack = (tp.is_ambiguous() || td.is_ambiguous()) as i128;
            if o > i32::MAX as i128 - slack || o < i32::MIN as i128 + slack {
                j.add_zone("Z12 |pts-dts| at/over 2^31 ticks (C16)");
            }
        }
        if !explicit_dts {
            if let Some(last) = st.last_v_pts {
                if pts <= last {
                    j.v.insert(C::VideoOrdering);
                }
            }
        }
        if let Some(prev_s) = st.prev_v_dts_s {
            if dts <= prev_s {
                j.v.insert(if explicit_dts { C::DtsOrdering } else { C::VideoOrdering });
            } else if let Some(prev_t) = &st.prev_v_dts {
                // strictly increasing in seconds; in ticks?
                match (prev_t.hi(), td.lo(), prev_t.lo(), td.hi()) {
                    (Some(ph), Some(cl), Some(pl), Some(ch)) => {
                        if ch <= pl {
                            j.add_zone("Z1 increasing in seconds, equal in ticks");
                        } else if cl <= ph {
                            j.add_zone("Z1 increasing in seconds, equal in ticks (tie)");
                        }
                    }
                    _ => {}
                }
                gap_judge(prev_t, &td, j);
            }
        }
    }
    if st.first_v_pts.is_none() && !st.finished {
        match key {
            Some(false) => {
                j.v.insert(C::FirstNotKey);
            }
            Some(true) => {}
            None => {
                j.add_zone("Z9 key decision of encode_video on unclassifiable bytes");
            }
        }
        if !data.is_empty() {
            if matches!(cfg.vcodec, H264 | H265) && units(data).iter().any(|u| u.len() > 65_535) {
                j.add_zone("Z13 NAL unit longer than 65535 bytes in the first frame (C16)");
            }
            match carries_config(cfg.vcodec, data) {
                HasCfg::Yes => {}
                HasCfg::No => {
                    j.v.insert(C::FirstMissingConfig);
                }
                HasCfg::Unclear => {
                    j.add_zone("Z7 first frame has a header whose deeper syntax is not decidable");
                }
            }
        }
    }
}

fn judge_audio(cfg: &Cfg, st: &State, pts: f64, data: &[u8], j: &mut Judgement) {
    use ErrClass as C;
    if st.finished {
        j.v.insert(C::Finished);
    }
    let Some(ac) = cfg.audio_effective() else {
        j.v.insert(C::AudioNotConfigured);
        return;
    };
    let mut ts_ok = true;
    if !pts.is_finite() {
        j.v.insert(C::NonFiniteAudioPts);
        ts_ok = false;
    } else if pts < 0.0 {
        j.v.insert(C::NegativeAudioPts);
        ts_ok = false;
    }
    if data.is_empty() {
        j.v.insert(C::EmptyAudio);
    }
    if ts_ok {
        let t = ticks(pts);
        if t.is_huge() {
            j.add_zone("Z2 timestamp at/over 2^53 ticks");
        }
        if let Some(last) = st.last_a_pts {
            if pts < last {
                j.v.insert(C::AudioOrdering);
            } else if let Some(p) = &st.prev_a {
                gap_judge(p, &t, j);
            }
        }
        match st.first_v_pts {
            None => {
                j.v.insert(C::AudioBeforeVideo);
            }
            Some(f) => {
                if pts < f {
                    j.v.insert(C::AudioBeforeVideo);
                }
            }
        }
    }
    if !data.is_empty() {
        if ac.is_aac() {
            match adts(data) {
                Adts::Valid { .. } => {}
                Adts::EmptyPayload { .. } => {
                    // a frame without payload cannot be stored as a sample (documented by the
                    // InvalidFrameLength error text): it must be rejected
                    j.v.insert(C::AdtsFraming);
                }
                Adts::Invalid(_) => {
                    j.v.insert(C::AdtsFraming);
                }
            }
        } else {
            match opus(data) {
                OpusVerdict::Valid => {}
                OpusVerdict::DontCare => {
                    j.add_zone("Z5 Opus packet malformed beyond TOC/frame count");
                }
                OpusVerdict::Invalid => {
                    j.v.insert(C::OpusFraming);
                }
            }
        }
    }
}

fn finish_zone(cfg: &Cfg, st: &State) -> Option<&'static str> {
    if cfg.width > 65_535 || cfg.height > 65_535 {
        return Some("Z8 dimensions do not fit the sample entry (C16)");
    }
    if let Some(a) = cfg.audio_effective() {
        if a.rate > 65_535 || a.channels > 255 {
            return Some("Z8 audio parameters do not fit their fields (C16)");
        }
    }
    if let (Some(f), Some(l)) = (st.first_dts_ticks, st.last_dts_ticks) {
        if l.saturating_sub(f) > (u32::MAX as u64) / 2 {
            return Some("Z8 total duration near/over 2^32 ticks (C16)");
        }
    }
    if let (Some(f), Some(l)) = (st.first_a_ticks, st.last_a_ticks) {
        if l - f > (u32::MAX as u64) / 2 {
            return Some("Z8 total duration near/over 2^32 ticks (C16)");
        }
    }
    None
}

fn class_matches(c: ErrClass, v: &BTreeSet<ErrClass>) -> bool {
    use ErrClass as C;
    if v.contains(&c) {
        return true;
    }
    match c {
        C::VideoOrdering => v.contains(&C::DtsOrdering),
        C::DtsOrdering => v.contains(&C::VideoOrdering),
        _ => false,
    }
}

fn v(sig: String, detail: String) -> Violation {
    Violation::new("C04", sig, detail)
}

pub fn check(h: &History, ex: &Exec, obs: &mut Obs) -> Vec<Violation> {
    use ErrClass as C;
    let mut out = Vec::new();
    let cfg = &h.cfg;
    // build
    match &ex.build {
        Res::Ok => {
            if !cfg.video {
                out.push(v("accepted-but-violates|build|MissingVideoConfig".into(), "build succeeded without a video configuration".into()));
            }
        }
        Res::Err(e) => {
            let z_opus = cfg.audio_effective().map(|a| a.is_opus() && a.channels > 255).unwrap_or(false);
            if cfg.video && z_opus && e.class == C::Io {
                obs.count("zone:Z14 Opus channel count over 255 (C16)", 1);
            } else if cfg.video {
                out.push(v(format!("rejected-valid|build|as {:?}", e.class), format!("build failed with {} although video was configured", e.variant)));
            } else if e.class != C::MissingVideoConfig {
                out.push(v(format!("wrong-error|build|got {:?}", e.class), format!("build without video failed with {}", e.variant)));
            }
            obs.set("triples", format!("build|{:?}", e.class));
            return out;
        }
        _ => return out,
    }
    let mut st = State::default();
    let rate = cfg.audio_effective().map(|a| a.rate).unwrap_or(0);
    let mut vcount = 0u64;
    for (i, (op, res)) in h.ops.iter().zip(ex.results.iter()).enumerate() {
        if matches!(res, Res::Skipped) {
            break;
        }
        let mut j = Judgement::default();
        if st.failed_finish {
            j.add_zone("Z11 any call after a failed finish");
        }
        // the call as the model sees it
        enum K {
            V { pts: f64, dts: f64 },
            A { pts: f64 },
            F,
        }
        let kind = match op {
            Op::WriteVideo { pts, data, key } => {
                let p = bf(*pts);
                judge_video(cfg, &st, p, p, false, data, Some(*key), &mut j);
                K::V { pts: p, dts: p }
            }
            Op::WriteVideoDts { pts, dts, data, key } => {
                let (p, d) = (bf(*pts), bf(*dts));
                judge_video(cfg, &st, p, d, true, data, Some(*key), &mut j);
                K::V { pts: p, dts: d }
            }
            Op::EncodeVideo { data, .. } => {
                let p = st.vclock;
                let key = if data.is_empty() { Some(true) } else { detect_key(cfg.vcodec, data, vcount) };
                judge_video(cfg, &st, p, p, false, data, key, &mut j);
                K::V { pts: p, dts: p }
            }
            Op::WriteAudio { pts, data } => {
                let p = bf(*pts);
                judge_audio(cfg, &st, p, data, &mut j);
                K::A { pts: p }
            }
            Op::EncodeAudio { data, .. } => {
                let p = st.aclock;
                judge_audio(cfg, &st, p, data, &mut j);
                K::A { pts: p }
            }
            Op::Finish(_) => {
                if st.finished {
                    j.v.insert(C::Finished);
                }
                if let Some(z) = finish_zone(cfg, &st) {
                    j.add_zone(z);
                }
                K::F
            }
        };
        // verdict
        let state_name = st.name();
        let ok = res.is_ok();
        if let Res::Panic { msg, loc } = res {
            // neither a success nor a returned error. A call the contract obliges to succeed must
            // not end like that (panics on calls that violate something are C12's business)
            if j.v.is_empty() && j.zones.is_empty() {
                out.push(v(
                    format!("panicked-but-valid|{}", op.name()),
                    format!("call #{} {} in state {} violates no precondition but panicked at {}: {}", i, op.brief(), st.name(), loc, msg),
                ));
            } else {
                obs.inconclusive += 1;
            }
            break;
        }
        for z in &j.zones {
            obs.count(&format!("zone:{}", z), 1);
        }
        let uncovered: Vec<ErrClass> = j.v.iter().copied().filter(|c| !j.zone_allows(*c)).collect();
        let vs = |v: &BTreeSet<ErrClass>| v.iter().map(|c| format!("{:?}", c)).collect::<Vec<_>>().join("+");
        if ok {
            if !uncovered.is_empty() {
                out.push(v(
                    format!("accepted-but-violates|{}|{}", op.name(), uncovered.iter().map(|c| format!("{:?}", c)).collect::<Vec<_>>().join("+")),
                    format!("call #{} {} in state {} returned Ok although it violates {:?}", i, op.brief(), state_name, j.v),
                ));
            }
        } else if let Res::Err(e) = res {
            let fine = class_matches(e.class, &j.v) || j.zone_allows(e.class);
            // one narrow, separately identified case: a first AV1 keyframe whose (specification
            // valid) sequence header is monochrome
            let av1_mono = !fine
                && cfg.vcodec == AV1
                && e.class == C::FirstMissingConfig
                && op.is_video()
                && matches!(op.data().map(scan_for_seq_hdr), Some(SeqScan::Valid(_, ref x)) if x.monochrome);
            if av1_mono {
                out.push(v(
                    "rejected-valid|first AV1 keyframe with a monochrome sequence header".into(),
                    format!("call #{} {} in state {} carries a valid monochrome sequence header but returned {}", i, op.brief(), state_name, e.variant),
                ));
            } else if !fine {
                if j.v.is_empty() && j.zone.is_none() {
                    out.push(v(
                        format!("rejected-valid|{}|as {:?}|{}", op.name(), e.class, codec_name(cfg.vcodec)),
                        format!("call #{} {} in state {} violates no documented precondition but returned {} ({})", i, op.brief(), state_name, e.variant, e.detail),
                    ));
                } else {
                    out.push(v(
                        format!("wrong-error|{}|got {:?}|violated {}", op.name(), e.class, vs(&j.v)),
                        format!("call #{} {} in state {} returned {} ({}) but the call violates {:?} (zone {:?})", i, op.brief(), state_name, e.variant, e.detail, j.v, j.zone),
                    ));
                }
            }
        }
        let verdict = match res {
            Res::Err(e) => format!("{:?}", e.class),
            _ => "Ok".to_string(),
        };
        obs.set("triples", format!("{}|{}|{}", state_name, op.name(), verdict));
        obs.count(if ok { "calls_accepted" } else { "calls_rejected" }, 1);
        // state update follows the observed outcome (judgement is relative to accepted calls)
        match kind {
            K::V { pts, dts } => {
                if ok {
                    if st.first_v_pts.is_none() {
                        st.first_v_pts = Some(pts);
                    }
                    st.last_v_pts = Some(pts);
                    st.prev_v_dts_s = Some(dts);
                    let t = ticks(dts.max(0.0));
                    if st.first_dts_ticks.is_none() {
                        st.first_dts_ticks = t.lo();
                    }
                    st.last_dts_ticks = t.lo().or(st.last_dts_ticks);
                    st.prev_v_dts = Some(t);
                    vcount += 1;
                    if let Op::EncodeVideo { dur_ms, .. } = op {
                        st.vclock += *dur_ms as f64 / 1000.0;
                    }
                } else if st.first_v_pts.is_none() {
                    st.rejected_before_first_video = true;
                }
            }
            K::A { pts } => {
                if ok {
                    st.last_a_pts = Some(pts);
                    let t = ticks(pts.max(0.0));
                    if st.first_a_ticks.is_none() {
                        st.first_a_ticks = t.lo();
                    }
                    st.last_a_ticks = t.lo().or(st.last_a_ticks);
                    st.prev_a = Some(t);
                    if let Op::EncodeAudio { samples, .. } = op {
                        st.aclock += *samples as f64 / rate as f64;
                    }
                }
            }
            K::F => {
                if ok {
                    st.finished = true;
                } else if !st.finished && !(cfg.width > 65_535 || cfg.height > 65_535) {
                    // a finish rejected for unrepresentable dimensions is refused before anything
                    // is written: the muxer is not finished and every later call is still judged
                    st.failed_finish = true;
                }
            }
        }
    }
    out
}

fn zone_allows(zone: &str, c: ErrClass) -> bool {
    use ErrClass as C;
    if zone.starts_with("Z11") {
        return true;
    }
    if zone.starts_with("Z1 ") {
        return matches!(c, C::VideoOrdering | C::DtsOrdering);
    }
    if zone.starts_with("Z2b") {
        return matches!(c, C::GapOverflow);
    }
    if zone.starts_with("Z2") {
        return matches!(c, C::GapOverflow | C::VideoOrdering | C::DtsOrdering | C::AudioOrdering | C::Io | C::AudioBeforeVideo | C::NonFiniteVideoPts | C::NonFiniteVideoDts | C::NonFiniteAudioPts);
    }
    if zone.starts_with("Z12") {
        return matches!(c, C::GapOverflow | C::Io);
    }
    if zone.starts_with("Z13") {
        return matches!(c, C::FirstMissingConfig | C::GapOverflow | C::Io);
    }
    if zone.starts_with("Z4") {
        return matches!(c, C::AdtsFraming | C::EmptyAudio);
    }
    if zone.starts_with("Z5") {
        return matches!(c, C::OpusFraming);
    }
    if zone.starts_with("Z7") {
        return matches!(c, C::FirstMissingConfig);
    }
    if zone.starts_with("Z8") {
        return matches!(c, C::Io | C::GapOverflow);
    }
    if zone.starts_with("Z9") {
        return matches!(c, C::FirstNotKey | C::FirstMissingConfig);
    }
    false
}
