//! C06 — finalisation happens exactly once and accounts for every byte and frame.

use super::*;

fn v(sig: String, detail: String) -> Violation {
    Violation::new("C06", sig, detail)
}

/// Largest presentation end (ticks) over accepted samples: (lo, hi) bounds from tie ambiguity and
/// the unconstrained single-sample duration.
pub fn model_end(l: &Ledger) -> Option<(u64, u64)> {
    if l.any_huge {
        return None;
    }
    let mut lo = 0u64;
    let mut hi = 0u64;
    let mut any = false;
    let nv = l.video.len();
    for (i, f) in l.video.iter().enumerate() {
        let (dlo, dhi) = if nv == 1 {
            (0, 1)
        } else {
            let (a, b) = if i + 1 < nv { (i, i + 1) } else { (i - 1, i) };
            let d_lo = l.video[b].dts.lo()?.saturating_sub(l.video[a].dts.hi()?);
            let d_hi = l.video[b].dts.hi()?.saturating_sub(l.video[a].dts.lo()?);
            (d_lo, d_hi)
        };
        lo = lo.max(f.pts.lo()? + dlo);
        hi = hi.max(f.pts.hi()? + dhi);
        any = true;
    }
    let na = l.audio.len();
    for (i, f) in l.audio.iter().enumerate() {
        let (dlo, dhi) = if na == 1 {
            (0, 1)
        } else {
            let (a, b) = if i + 1 < na { (i, i + 1) } else { (i - 1, i) };
            let d_lo = l.audio[b].pts.lo()?.saturating_sub(l.audio[a].pts.hi()?);
            let d_hi = l.audio[b].pts.hi()?.saturating_sub(l.audio[a].pts.lo()?);
            (d_lo, d_hi)
        };
        lo = lo.max(f.pts.lo()? + dlo);
        hi = hi.max(f.pts.hi()? + dhi);
        any = true;
    }
    if !any {
        return Some((0, 0));
    }
    Some((lo, hi))
}

pub fn check(a: &Analysis, obs: &mut Obs) -> Vec<Violation> {
    let mut out = Vec::new();
    let h = a.h;
    let first_finish_attempt = h.ops.iter().position(|o| o.is_finish());
    let f_ok = a.ledger.finish;
    // ---- sink traffic
    for e in a.events {
        let seq = e.seq as usize;
        let is_finish_call = h.ops.get(seq).map(|o| o.is_finish()).unwrap_or(false);
        if !is_finish_call {
            let what = if e.seq == u32::MAX {
                "build".to_string()
            } else if e.seq == u32::MAX - 1 {
                "drop".to_string()
            } else {
                h.ops.get(seq).map(|o| o.name().to_string()).unwrap_or_else(|| "?".into())
            };
            out.push(v(format!("write-outside-finish|during {}", what), format!("sink received {} bytes during call #{} ({})", e.offered, e.seq, what)));
            break;
        }
        if let Some(f) = f_ok {
            if seq > f {
                out.push(v("write-after-successful-finish".into(), format!("sink received {} bytes during call #{} after the successful finish #{}", e.offered, seq, f)));
                break;
            }
        }
        if first_finish_attempt.map(|p| seq < p).unwrap_or(true) {
            out.push(v("write-before-finish".into(), format!("sink received bytes during call #{}", seq)));
            break;
        }
    }
    // ---- after the successful finish every call fails
    if let Some(f) = f_ok {
        for (i, (op, r)) in h.ops.iter().zip(a.ex.results.iter()).enumerate().skip(f + 1) {
            match r {
                Res::Skipped => {}
                Res::Err(_) => obs.count("post_finish_calls_rejected", 1),
                Res::Ok | Res::OkStats(_) => {
                    out.push(v(format!("call-succeeds-after-finish|{}", op.name()), format!("call #{} {} returned Ok after the successful finish #{}", i, op.brief(), f)));
                    break;
                }
                Res::Panic { .. } => {}
            }
        }
        // ---- statistics
        if let Res::OkStats(st) = &a.ex.results[f] {
            if st.video_frames != a.ledger.video.len() as u64 {
                out.push(v("stats|video_frames".into(), format!("stats.video_frames={} but {} video frames were accepted", st.video_frames, a.ledger.video.len())));
            }
            if st.audio_frames != a.ledger.audio.len() as u64 {
                out.push(v("stats|audio_frames".into(), format!("stats.audio_frames={} but {} audio frames were accepted", st.audio_frames, a.ledger.audio.len())));
            }
            if st.bytes_written != a.bytes.len() as u64 {
                out.push(v("stats|bytes_written".into(), format!("stats.bytes_written={} but the sink accepted {} bytes", st.bytes_written, a.bytes.len())));
            }
            let dur = bf(st.duration_bits);
            match model_end(&a.ledger) {
                Some((lo, hi)) => {
                    let ticks = dur * 90_000.0;
                    let tol = 1.0 + 1e-6 * hi as f64;
                    if !(ticks.is_finite() && ticks >= lo as f64 - tol && ticks <= hi as f64 + tol) {
                        let reordered = a.ledger.reordered();
                        out.push(v(
                            format!("stats|duration|reorder={}", reordered as u8),
                            format!("stats.duration_secs={:?} = {:.3} ticks; largest presentation end over accepted samples is {}..{} ticks", dur, ticks, lo, hi),
                        ));
                    }
                    obs.count("durations_checked", 1);
                }
                None => obs.count("duration_skipped_huge(C16 zone)", 1),
            }
            obs.count("stats_checked", 1);
        }
        // the complete file: every top-level box is whole and the movie box is there
        if !a.tree.errors.is_empty() || a.tree.find_top(b"moov").len() != 1 {
            out.push(v("incomplete-file-after-successful-finish".into(), format!("finish returned Ok but the sink holds an incomplete file: {:?}; top-level {:?}", a.tree.errors.first(), a.tree.top_types())));
        }
        // exactly one complete file: starts with ftyp (size,type) once
        if a.bytes.len() >= 8 && &a.bytes[4..8] == b"ftyp" {
            let n = a.tree.find_top(b"ftyp").len();
            if n != 1 {
                out.push(v("file-written-more-than-once".into(), format!("{} ftyp boxes at top level", n)));
            }
        }
    } else if !a.bytes.is_empty() && !a.ex.results.iter().zip(h.ops.iter()).any(|(r, o)| o.is_finish() && !matches!(r, Res::Skipped)) {
        out.push(v("bytes-without-finish".into(), format!("{} bytes in the sink although finish was never called", a.bytes.len())));
    }
    obs.count("sink_events_observed", a.events.len() as u64);
    obs.count("finish_attempts", h.ops.iter().filter(|o| o.is_finish()).count() as u64);
    out
}
