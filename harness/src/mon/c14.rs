//! C14 — re-framing (Annex B to length-prefixed NALs, ADTS to raw AAC) is exact.

use super::*;
use crate::model::basic as mb;

fn v(sig: String, detail: String) -> Violation {
    Violation::new("C14", sig, detail)
}

pub const AB5: [u8; 5] = [0x00, 0x01, 0x02, 0x03, 0xff];
pub const AB3: [u8; 3] = [0x00, 0x01, 0xaa];
pub const AB5_MAXLEN: u32 = 9;
pub const AB3_MAXLEN: u32 = 12;

/// number of strings of length 0..=maxlen over an alphabet of size a
pub fn space_size(a: u64, maxlen: u32) -> u64 {
    (0..=maxlen).map(|l| a.pow(l)).sum()
}

/// i-th string (shortlex order)
pub fn nth_string(alpha: &[u8], mut i: u64) -> Vec<u8> {
    let a = alpha.len() as u64;
    let mut len = 0u32;
    loop {
        let c = a.pow(len);
        if i < c {
            break;
        }
        i -= c;
        len += 1;
    }
    let mut s = vec![0u8; len as usize];
    for k in (0..len as usize).rev() {
        s[k] = alpha[(i % a) as usize];
        i /= a;
    }
    s
}

/// Check all four consumers on one byte string.
pub fn check_bytes(s: &[u8], obs: &mut Obs) -> Vec<Violation> {
    let mut out = Vec::new();
    let want = mb::to_length_prefixed(s);
    let want_units: Vec<&[u8]> = {
        let u = mb::units(s);
        if u.is_empty() && !s.is_empty() {
            vec![s]
        } else {
            u
        }
    };
    for (name, got) in [("annexb_to_avcc", muxide::codec::h264::annexb_to_avcc(s)), ("hevc_annexb_to_hvcc", muxide::codec::h265::hevc_annexb_to_hvcc(s))] {
        match mb::parse_length_prefixed(&got) {
            None => out.push(v(format!("{}|does-not-parse-to-its-end", name), format!("input {} -> output {} is not a sequence of [len32][payload]", crate::util::hex_short(s), crate::util::hex_short(&got)))),
            Some(units) => {
                if units != want_units {
                    let what = if units.len() != want_units.len() { "unit-count" } else { "unit-bytes" };
                    out.push(v(
                        format!("{}|{}", name, what),
                        format!("input {} -> units {:?} ; expected {:?}", crate::util::hex_short(s), units.iter().map(|u| crate::util::hex_short(u)).collect::<Vec<_>>(), want_units.iter().map(|u| crate::util::hex_short(u)).collect::<Vec<_>>()),
                    ));
                }
            }
        }
        if got != want && out.is_empty() {
            out.push(v(format!("{}|output-bytes", name), format!("input {} -> {} ; expected {}", crate::util::hex_short(s), crate::util::hex_short(&got), crate::util::hex_short(&want))));
        }
    }
    let it: Vec<&[u8]> = muxide::codec::AnnexBNalIter::new(s).filter(|n| !n.is_empty()).collect();
    if it != mb::units(s) {
        out.push(v("AnnexBNalIter|units".into(), format!("input {} -> iterator yields {:?} ; expected {:?}", crate::util::hex_short(s), it.iter().map(|u| crate::util::hex_short(u)).collect::<Vec<_>>(), mb::units(s).iter().map(|u| crate::util::hex_short(u)).collect::<Vec<_>>())));
    }
    obs.evaluations += 1;
    if mb::next_start_code(s, 0).is_some() {
        obs.count("inputs_with_start_code", 1);
    }
    out
}

/// The same strings through the muxer itself: each one submitted as a non-first video frame of an
/// H.264 / H.265 recording; the sample stored for it must be the re-framed access unit.
pub fn check_via_muxer(strings: &[Vec<u8>], obs: &mut Obs) -> Vec<Violation> {
    use crate::exec::{run, ExecOpts};
    let mut out = Vec::new();
    for codec in [H264, H265] {
        let name = if codec == H264 { "h264" } else { "h265" };
        let mut r = crate::util::Rng::new(0xC14);
        let mut cfg = Cfg::basic(codec);
        cfg.fast_start = Some(strings.len() % 2 == 0);
        let key = crate::gen::frames::video_frame(&mut r, codec, crate::gen::frames::FrameKind::KeyCfg, 8, false);
        let mut ops = vec![Op::wv(0.0, key, true)];
        let subs: Vec<&Vec<u8>> = strings.iter().filter(|s| !s.is_empty()).collect();
        for (i, s) in subs.iter().enumerate() {
            ops.push(Op::wv((i + 1) as f64 / 30.0, (*s).clone(), false));
        }
        ops.push(Op::Finish(FinishKind::InPlaceStats));
        let h = History { cfg, ops };
        let (ex, sink) = run(&h, &ExecOpts::default());
        if let Some((i, Res::Panic { msg, loc })) = ex.first_panic() {
            // a frame the converter must re-frame made the muxer panic instead
            let frame = h.ops.get(i).and_then(|o| o.data()).map(crate::util::hex_short).unwrap_or_default();
            out.push(v(format!("muxer|{}|panic-on-frame", name), format!("call #{} (frame {}) panicked at {}: {}", i, frame, loc, msg)));
            continue;
        }
        let bytes = sink.bytes();
        let tree = bmff::parse_tree(&bytes);
        let movie = bmff::parse_movie(&bytes, &tree);
        let Some(vt) = movie.tracks.iter().find(|t| &t.handler == b"vide") else {
            out.push(v(format!("muxer|{}|no-video-track", name), "finished file has no video track".into()));
            continue;
        };
        let accepted: Vec<&Vec<u8>> = subs.iter().zip(ex.results[1..].iter()).filter(|(_, r)| r.is_ok()).map(|(s, _)| *s).collect();
        obs.count("strings_submitted_to_the_muxer", subs.len() as u64);
        obs.count("strings_accepted_by_the_muxer", accepted.len() as u64);
        if vt.samples.len() != accepted.len() + 1 {
            out.push(v(format!("muxer|{}|sample-count", name), format!("{} accepted frames but {} video samples", accepted.len() + 1, vt.samples.len())));
            continue;
        }
        for (smp, s) in vt.samples[1..].iter().zip(accepted.iter()) {
            let a = smp.offset as usize;
            let got = bytes.get(a..a + smp.size as usize).unwrap_or(&[]);
            let want = mb::to_length_prefixed(s);
            if got != want.as_slice() {
                out.push(v(
                    format!("muxer|{}|stored-sample", name),
                    format!("frame {} was stored as {} ; expected {}", crate::util::hex_short(s), crate::util::hex_short(got), crate::util::hex_short(&want)),
                ));
                break;
            }
        }
    }
    out
}

/// Whole-muxer view with an audio track: a recording of H.264/H.265 video and AAC audio in
/// which some frames exceed 64 KiB (staging / batching thresholds); every stored sample must be
/// exactly the re-framed input (length-prefixed units / the ADTS payload). Uses C01's resolver.
pub fn check_av_muxer(r: &mut crate::util::Rng, obs: &mut Obs) -> Vec<Violation> {
    use crate::exec::{run, ExecOpts};
    use crate::gen::hist::{gen_cfg, gen_history_for, GenOpts};
    let o = GenOpts { codecs: vec![H264, H265], hostile_pct: 0, reorder_pct: 20, audio_pct: 100, meta_pct: 0, encode_pct: 0, consuming: false, max_video: 6, max_audio: 8, big_frames: true, extreme_start_pct: 0, ..Default::default() };
    let mut cfg = gen_cfg(r, &o);
    cfg.audio = Some(AudioCfg { kind: 1, rate: 48_000, channels: 2 });
    let h = gen_history_for(r, &o, cfg);
    let (ex, sink) = run(&h, &ExecOpts::default());
    if ex.any_panic() {
        obs.inconclusive += 1;
        return vec![];
    }
    let (bytes, events) = sink.with(|s| (s.bytes.clone(), s.events.clone()));
    let a = super::Analysis::new(&h, &ex, &bytes, &events);
    obs.count("av_recordings_through_the_muxer", 1);
    obs.max("largest_frame_in_av_recordings", h.ops.iter().filter_map(|o| o.data()).map(|d| d.len() as u64).max().unwrap_or(0));
    let mut scratch = Obs::default();
    super::c01::check(&a, &mut scratch)
        .into_iter()
        .filter(|x| x.sig.contains("sample-bytes"))
        .map(|x| v(format!("muxer-av|stored-sample|{}", if x.sig.contains("audio") { "audio" } else { "video" }), format!("{} :: {}", h.brief(), x.detail)))
        .collect()
}

/// Constructive: NAL list known by construction (emulation-safe bodies), random start codes,
/// leading garbage, trailing zeros.
pub fn constructive(r: &mut crate::util::Rng, obs: &mut Obs) -> (Vec<u8>, Vec<Violation>) {
    // now and then an access unit of a few thousand tiny units (counts around 1024, 2048, ...)
    let many = r.chance(1, 100);
    let n = if many { *r.pick(&[1023usize, 1024, 1025, 2048, 2049, 3000]) } else { r.range(1, 12) as usize };
    let mut nals: Vec<Vec<u8>> = Vec::new();
    for _ in 0..n {
        let len = match r.below(8) {
            _ if many => r.range(1, 5) as usize,
            0 => 1,
            1 => r.range(2, 4) as usize,
            7 => r.range(1000, 65_536) as usize,
            _ => r.range(4, 300) as usize,
        };
        // bytes >= 4 never form (part of) a start code and never end in zero
        let b: Vec<u8> = r.bytes(len).into_iter().map(|x| if x < 4 { x | 4 } else { x }).collect();
        nals.push(b);
    }
    let mut s = Vec::new();
    if r.chance(1, 3) {
        let g = r.range(1, 9) as usize;
        s.extend(r.bytes(g).into_iter().map(|x| if x < 4 { x | 8 } else { x }));
    }
    for nal in &nals {
        if r.chance(1, 2) {
            s.extend_from_slice(&[0, 0, 0, 1]);
        } else {
            s.extend_from_slice(&[0, 0, 1]);
        }
        s.extend_from_slice(nal);
    }
    // trailing zeros belong to the last unit ("up to ... the end of the input")
    let tz = if r.chance(1, 3) { r.range(1, 3) as usize } else { 0 };
    s.extend(std::iter::repeat(0u8).take(tz));
    let mut want = nals.clone();
    if tz > 0 {
        want.last_mut().unwrap().extend(std::iter::repeat(0u8).take(tz));
    }
    let mut out = Vec::new();
    for (name, got) in [("annexb_to_avcc", muxide::codec::h264::annexb_to_avcc(&s)), ("hevc_annexb_to_hvcc", muxide::codec::h265::hevc_annexb_to_hvcc(&s))] {
        match mb::parse_length_prefixed(&got) {
            None => out.push(v(format!("{}|does-not-parse-to-its-end|constructive", name), format!("{} NAL units, {} bytes", n, s.len()))),
            Some(units) => {
                let w: Vec<&[u8]> = want.iter().map(|x| x.as_slice()).collect();
                if units != w {
                    out.push(v(format!("{}|constructive-units", name), format!("{} NAL units of lengths {:?} -> got lengths {:?}", n, w.iter().map(|u| u.len()).collect::<Vec<_>>(), units.iter().map(|u| u.len()).collect::<Vec<_>>())));
                }
            }
        }
    }
    obs.evaluations += 1;
    obs.count("constructive_inputs", 1);
    obs.count("constructive_bytes", s.len() as u64);
    // the model must agree with the construction as well (oracle self-check)
    let mu: Vec<Vec<u8>> = mb::units(&s).into_iter().map(|u| u.to_vec()).collect();
    if mu != want {
        obs.count("MODEL_DISAGREES_WITH_CONSTRUCTION", 1);
    }
    (s, out)
}

/// ADTS: frames with declared length `flen` for flen in lo..hi, buffer length flen+delta. The
/// stored sample of every frame the muxer accepts must be frame[hdr..flen].
pub fn check_adts(protection_absent: bool, delta: i32, lo: u32, hi: u32, mix: bool, obs: &mut Obs) -> Vec<Violation> {
    use crate::exec::{run, ExecOpts};
    let mut out = Vec::new();
    let (h, frames) = adts_history(protection_absent, delta, lo, hi, mix);
    let (ex, sink) = run(&h, &ExecOpts::default());
    if ex.any_panic() {
        obs.inconclusive += 1;
        return out;
    }
    adts_judge(&h, &ex, &sink.bytes(), &frames, protection_absent, mix, obs, &mut out);
    out
}

/// The history used by the ADTS sweep: one key frame, then one audio frame per declared length.
pub fn adts_history(protection_absent: bool, delta: i32, lo: u32, hi: u32, mix: bool) -> (History, Vec<(Vec<u8>, usize, usize)>) {
    let mut r = crate::util::Rng::new(crate::util::mix(lo as u64, hi as u64 * 4 + protection_absent as u64));
    let mut cfg = Cfg::basic(H264);
    cfg.audio = Some(AudioCfg { kind: 1, rate: 48_000, channels: 2 });
    cfg.fast_start = Some(lo % 2 == 0);
    let key = crate::gen::frames::h264_frame(&mut r, crate::gen::frames::FrameKind::KeyCfg, 16, false);
    let mut ops = vec![Op::wv(0.0, key, true)];
    let mut frames: Vec<(Vec<u8>, usize, usize)> = Vec::new();
    for (j, flen) in (lo..hi).enumerate() {
        let buf_len = (flen as i64 + delta as i64).max(0) as usize;
        // build header with the declared length, then fill the buffer to buf_len
        let pa = if mix { (j % 2 == 0) == protection_absent } else { protection_absent };
        let mut f = mb::build_adts(1, 3, 2, pa, &[], Some(flen as usize), 0, 0);
        // every value of the fields that do not take part in framing, in particular
        // number_of_raw_data_blocks_in_frame 0..3 under both protection modes
        if j % 3 != 0 {
            mb::scramble_adts_free_bits(&mut f, r.next_u64());
            f[6] = (f[6] & 0xfc) | ((j / 3) % 4) as u8;
        }
        while f.len() < buf_len {
            f.push((f.len() as u8).wrapping_mul(31).wrapping_add(j as u8) | 1);
        }
        f.truncate(buf_len.max(0));
        ops.push(Op::wa(j as f64 * 0.02, f.clone()));
        frames.push((f, flen as usize, if pa { 7 } else { 9 }));
    }
    ops.push(Op::Finish(FinishKind::InPlaceStats));
    (History { cfg, ops }, frames)
}

#[allow(clippy::too_many_arguments)]
fn adts_judge(_h: &History, ex: &crate::exec::Exec, bytes: &[u8], frames: &[(Vec<u8>, usize, usize)], protection_absent: bool, mix: bool, obs: &mut Obs, out: &mut Vec<Violation>) {
    let tree = bmff::parse_tree(bytes);
    let movie = bmff::parse_movie(bytes, &tree);
    let Some(at) = movie.tracks.iter().find(|t| &t.handler == b"soun") else {
        out.push(v("adts|no-audio-track".into(), "finished file has no audio track".into()));
        return;
    };
    let accepted: Vec<&(Vec<u8>, usize, usize)> = frames.iter().zip(ex.results[1..].iter()).filter(|(_, r)| r.is_ok()).map(|(f, _)| f).collect();
    obs.count("adts_frames_submitted", frames.len() as u64);
    obs.count("adts_frames_accepted", accepted.len() as u64);
    obs.evaluations += frames.len() as u64;
    if at.samples.len() != accepted.len() {
        out.push(v("adts|sample-count".into(), format!("{} accepted ADTS frames but {} audio samples", accepted.len(), at.samples.len())));
        return;
    }
    for (s, (f, flen, hdr)) in at.samples.iter().zip(accepted.iter()) {
        let hdr = *hdr;
        let a = s.offset as usize;
        let got = bytes.get(a..a + s.size as usize).unwrap_or(&[]);
        let want = &f[hdr.min(f.len())..(*flen).min(f.len())];
        if got != want {
            out.push(v(
                format!("adts|payload|protection_absent={}{}", protection_absent, if mix { "|alternating" } else { "" }),
                format!("ADTS frame with declared length {} in a {}-byte buffer: stored sample {} ; expected frame[{}..{}] = {}", flen, f.len(), crate::util::hex_short(got), hdr, flen, crate::util::hex_short(want)),
            ));
            break;
        }
        obs.nontrivial(crate::util::fnv(f));
    }
}
