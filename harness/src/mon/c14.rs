//! C14 monitor (filled in below)
