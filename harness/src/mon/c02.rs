//! C02 — every emitted byte stream is a well-formed ISO-BMFF tree with mandatory boxes.

use super::*;
use crate::bmff::{BoxNode, Fragment};

fn v(sig: String, detail: String) -> Violation {
    Violation::new("C02", sig, detail)
}

fn exactly_one(parent: &BoxNode, t: &[u8; 4], path: &str, out: &mut Vec<Violation>, kind: &str) -> bool {
    let n = parent.children_of(t).len();
    if n != 1 {
        out.push(v(format!("{}|mandatory|{}/{} x{}", kind, path, bmff::fourcc(t), n), format!("{} must contain exactly one {}, found {}", path, bmff::fourcc(t), n)));
        return false;
    }
    true
}

/// mandatory hierarchy of one trak; `samples` = require consistent non-fragmented tables
fn check_trak(trak: &BoxNode, kind: &str, out: &mut Vec<Violation>) {
    exactly_one(trak, b"tkhd", "trak", out, kind);
    if !exactly_one(trak, b"mdia", "trak", out, kind) {
        return;
    }
    let mdia = trak.child(b"mdia").unwrap();
    exactly_one(mdia, b"mdhd", "mdia", out, kind);
    exactly_one(mdia, b"hdlr", "mdia", out, kind);
    if !exactly_one(mdia, b"minf", "mdia", out, kind) {
        return;
    }
    let minf = mdia.child(b"minf").unwrap();
    let mh = minf.children_of(b"vmhd").len() + minf.children_of(b"smhd").len() + minf.children_of(b"nmhd").len();
    if mh != 1 {
        out.push(v(format!("{}|mandatory|minf/media-header x{}", kind, mh), format!("minf must contain exactly one media header box, found {}", mh)));
    }
    if exactly_one(minf, b"dinf", "minf", out, kind) {
        let dinf = minf.child(b"dinf").unwrap();
        if exactly_one(dinf, b"dref", "dinf", out, kind) {
            let dref = dinf.child(b"dref").unwrap();
            if dref.children.is_empty() {
                out.push(v(format!("{}|mandatory|dref/entry x0", kind), "dref has no entry".into()));
            }
        }
    }
    if !exactly_one(minf, b"stbl", "minf", out, kind) {
        return;
    }
    let stbl = minf.child(b"stbl").unwrap();
    exactly_one(stbl, b"stsd", "stbl", out, kind);
    exactly_one(stbl, b"stts", "stbl", out, kind);
    exactly_one(stbl, b"stsc", "stbl", out, kind);
    let sz = stbl.children_of(b"stsz").len() + stbl.children_of(b"stz2").len();
    if sz != 1 {
        out.push(v(format!("{}|mandatory|stbl/stsz x{}", kind, sz), format!("stbl must contain exactly one of stsz/stz2, found {}", sz)));
    }
    let co = stbl.children_of(b"stco").len() + stbl.children_of(b"co64").len();
    if co != 1 {
        out.push(v(format!("{}|mandatory|stbl/stco x{}", kind, co), format!("stbl must contain exactly one of stco/co64, found {}", co)));
    }
    for opt in [b"ctts", b"stss"] {
        if stbl.children_of(opt).len() > 1 {
            out.push(v(format!("{}|duplicate|stbl/{}", kind, bmff::fourcc(opt)), "duplicate optional table".into()));
        }
    }
    if let Some(stsd) = stbl.child(b"stsd") {
        if stsd.children.len() != 1 {
            out.push(v(format!("{}|stsd-entries x{}", kind, stsd.children.len()), "stsd must hold exactly one sample entry here".into()));
        }
    }
}

fn tiling(tree: &Tree, kind: &str, out: &mut Vec<Violation>) {
    if let Some(e) = tree.errors.first() {
        // signature: the rule, without offsets
        let rule = e.split(" at ").next().unwrap_or(e);
        let rule: String = rule.chars().filter(|c| !c.is_ascii_digit()).collect();
        out.push(v(format!("{}|tiling|{}", kind, rule), format!("{} ({} tiling errors)", e, tree.errors.len())));
    }
}

/// A finished progressive file.
pub fn check_file(a: &Analysis, obs: &mut Obs) -> Vec<Violation> {
    let mut out = Vec::new();
    if !a.finished_ok() {
        return out;
    }
    let kind = "file";
    tiling(&a.tree, kind, &mut out);
    let tops = a.tree.top_types();
    if tops.first().map(|s| s.as_str()) != Some("ftyp") {
        out.push(v(format!("{}|top|ftyp-not-first", kind), format!("top-level boxes: {:?}", tops)));
    }
    let nmoov = a.tree.find_top(b"moov").len();
    let nmdat = a.tree.find_top(b"mdat").len();
    let nftyp = a.tree.find_top(b"ftyp").len();
    if nmoov != 1 || nmdat > 1 || nftyp != 1 {
        out.push(v(format!("{}|top|ftyp x{} moov x{} mdat x{}", kind, nftyp, nmoov, nmdat), format!("top-level boxes: {:?}", tops)));
    }
    let Some(moov) = a.tree.find_top(b"moov").first().cloned() else {
        return out;
    };
    exactly_one(moov, b"mvhd", "moov", &mut out, kind);
    let want_tracks = 1 + a.h.cfg.audio_effective().is_some() as usize;
    let traks = moov.children_of(b"trak");
    if traks.len() != want_tracks {
        out.push(v(format!("{}|track-count|{} for {} streams", kind, traks.len(), want_tracks), "one trak per configured stream".into()));
    }
    for t in &traks {
        check_trak(t, kind, &mut out);
    }
    if moov.children_of(b"udta").len() > 1 {
        out.push(v(format!("{}|duplicate|moov/udta", kind), "duplicate udta".into()));
    }
    // table consistency (reader already cross-checked counts while resolving)
    for e in &a.movie.errors {
        let rule: String = e.chars().filter(|c| !c.is_ascii_digit()).collect();
        out.push(v(format!("{}|tables|{}", kind, rule), e.clone()));
        break;
    }
    for t in &a.movie.tracks {
        if t.stsd_count != 1 {
            out.push(v(format!("{}|stsd-count", kind), format!("stsd entry_count {}", t.stsd_count)));
        }
    }
    obs.count("boxes_parsed", a.tree.count_all() as u64);
    obs.count("files_checked", 1);
    out
}

/// An init segment (ftyp + moov with mvex/trex).
pub fn check_init(bytes: &[u8], obs: &mut Obs) -> Vec<Violation> {
    let mut out = Vec::new();
    let kind = "init";
    let tree = bmff::parse_tree(bytes);
    tiling(&tree, kind, &mut out);
    let tops = tree.top_types();
    if tops != ["ftyp", "moov"] {
        out.push(v(format!("{}|top|{:?}", kind, tops), "init segment must be ftyp + moov".into()));
    }
    let Some(moov) = tree.find_top(b"moov").first().cloned() else {
        return out;
    };
    exactly_one(moov, b"mvhd", "moov", &mut out, kind);
    let traks = moov.children_of(b"trak");
    if traks.len() != 1 {
        out.push(v(format!("{}|track-count|{}", kind, traks.len()), "one trak expected".into()));
    }
    for t in &traks {
        check_trak(t, kind, &mut out);
    }
    let movie = bmff::parse_movie(bytes, &tree);
    if let Some(e) = movie.errors.first() {
        let rule: String = e.chars().filter(|c| !c.is_ascii_digit()).collect();
        out.push(v(format!("{}|tables|{}", kind, rule), e.clone()));
    }
    if exactly_one(moov, b"mvex", "moov", &mut out, kind) {
        let ids: Vec<u32> = movie.tracks.iter().map(|t| t.track_id).collect();
        for id in &ids {
            let n = movie.trex.iter().filter(|x| x.track_id == *id).count();
            if n != 1 {
                out.push(v(format!("{}|trex-for-track x{}", kind, n), format!("track {} has {} trex entries", id, n)));
            }
        }
        if movie.trex.len() != ids.len() {
            out.push(v(format!("{}|trex-count", kind), format!("{} trex for {} tracks", movie.trex.len(), ids.len())));
        }
    }
    for t in &movie.tracks {
        if !t.samples.is_empty() {
            out.push(v(format!("{}|samples-in-init", kind), "init segment describes samples".into()));
        }
    }
    obs.count("boxes_parsed", tree.count_all() as u64);
    obs.count("init_segments_checked", 1);
    out
}

/// A media segment: exactly moof{mfhd, traf{tfhd, tfdt, trun+}} + one mdat.
pub fn check_segment(bytes: &[u8], obs: &mut Obs) -> (Vec<Violation>, Fragment) {
    let mut out = Vec::new();
    let kind = "segment";
    let tree = bmff::parse_tree(bytes);
    tiling(&tree, kind, &mut out);
    let tops = tree.top_types();
    if tops != ["moof", "mdat"] {
        out.push(v(format!("{}|top|{:?}", kind, tops), "media segment must be moof + mdat".into()));
    }
    if let Some(moof) = tree.find_top(b"moof").first() {
        exactly_one(moof, b"mfhd", "moof", &mut out, kind);
        if exactly_one(moof, b"traf", "moof", &mut out, kind) {
            let traf = moof.child(b"traf").unwrap();
            exactly_one(traf, b"tfhd", "traf", &mut out, kind);
            exactly_one(traf, b"tfdt", "traf", &mut out, kind);
            if traf.children_of(b"trun").is_empty() {
                out.push(v(format!("{}|mandatory|traf/trun x0", kind), "traf without trun".into()));
            }
        }
    }
    let frag = bmff::parse_fragment(bytes, &tree, None);
    if let Some(e) = frag.errors.first() {
        let rule: String = e.chars().filter(|c| !c.is_ascii_digit()).collect();
        out.push(v(format!("{}|fragment|{}", kind, rule), e.clone()));
    }
    obs.count("boxes_parsed", tree.count_all() as u64);
    obs.count("media_segments_checked", 1);
    (out, frag)
}
