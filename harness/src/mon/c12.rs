//! C12 — no public entry point panics, overflows or hangs on any input.
//!
//! Monitor = panic hook + catch_unwind around every public call (see exec::guard). This file
//! holds the interpreter for the free functions / value types and the panic -> signature mapping.

use super::*;
use crate::exec::{acodec, guard, vcodec};
use crate::util::hexbytes;
use serde::{Deserialize, Serialize};

#[derive(Serialize, Deserialize, Clone, Debug, PartialEq)]
pub enum FreeOp {
    /// every byte-string consumer of codec::* on the same input
    CodecBytes {
        #[serde(with = "hexbytes")]
        data: Vec<u8>,
        from: usize,
    },
    ValidateVideoFrame {
        codec: u8,
        #[serde(with = "hexbytes")]
        data: Vec<u8>,
        key: bool,
    },
    ValidateAudioFrame {
        kind: u8,
        #[serde(with = "hexbytes")]
        data: Vec<u8>,
    },
    ValidateConfigs {
        codec: u8,
        w: u32,
        h: u32,
        fps_bits: u64,
        akind: u8,
        rate: u32,
        ch: u8,
        #[serde(with = "hexbytes")]
        vframe: Vec<u8>,
        #[serde(with = "hexbytes")]
        aframe: Vec<u8>,
        partial: u8,
    },
    Values {
        a: u8,
        b: u8,
        c: u16,
        s: String,
    },
}

impl FreeOp {
    pub fn name(&self) -> &'static str {
        match self {
            FreeOp::CodecBytes { .. } => "codec::*(bytes)",
            FreeOp::ValidateVideoFrame { .. } => "validation::validate_video_frame",
            FreeOp::ValidateAudioFrame { .. } => "validation::validate_audio_frame",
            FreeOp::ValidateConfigs { .. } => "validation::validate_*_config",
            FreeOp::Values { .. } => "value types",
        }
    }
}

/// Run one free-function case; every individual public function is guarded separately so the
/// culprit is named. Returns (function name, message, location) for each panic.
pub fn run_free(op: &FreeOp, obs: &mut Obs) -> Vec<(String, String, String)> {
    let mut panics = Vec::new();
    let mut g = |name: &str, f: &mut dyn FnMut()| {
        obs.count("free_calls", 1);
        if let Err((m, l)) = guard(f) {
            panics.push((name.to_string(), m, l));
        }
    };
    use muxide::codec::*;
    match op {
        FreeOp::CodecBytes { data, from } => {
            let d = data.as_slice();
            g("codec::h264::annexb_to_avcc", &mut || {
                let _ = h264::annexb_to_avcc(d);
            });
            g("codec::h264::extract_avc_config", &mut || {
                if let Some(c) = h264::extract_avc_config(d) {
                    let _ = (c.profile_idc(), c.profile_compatibility(), c.level_idc());
                }
            });
            g("codec::h264::is_h264_keyframe", &mut || {
                let _ = h264::is_h264_keyframe(d);
            });
            g("codec::h265::hevc_annexb_to_hvcc", &mut || {
                let _ = h265::hevc_annexb_to_hvcc(d);
            });
            g("codec::h265::extract_hevc_config", &mut || {
                if let Some(c) = h265::extract_hevc_config(d) {
                    let _ = (c.general_profile_space(), c.general_tier_flag(), c.general_profile_idc(), c.general_level_idc());
                }
            });
            g("codec::h265::is_hevc_keyframe", &mut || {
                let _ = h265::is_hevc_keyframe(d);
            });
            g("codec::h265::hevc_nal_type", &mut || {
                let _ = h265::hevc_nal_type(d);
            });
            g("codec::common::AnnexBNalIter", &mut || {
                let _ = AnnexBNalIter::new(d).count();
            });
            g("codec::common::find_start_code", &mut || {
                let _ = find_start_code(d, *from);
                let _ = find_start_code(d, 0);
                let _ = find_start_code(d, d.len());
                let _ = find_start_code(d, usize::MAX);
            });
            g("codec::av1::extract_av1_config", &mut || {
                let _ = av1::extract_av1_config(d);
            });
            g("codec::av1::is_av1_keyframe", &mut || {
                let _ = av1::is_av1_keyframe(d);
            });
            g("codec::av1::ObuIter", &mut || {
                let _ = av1::ObuIter::new(d).count();
            });
            g("codec::av1::parse_obu_header", &mut || {
                let _ = av1::parse_obu_header(d);
            });
            g("codec::av1::read_leb128", &mut || {
                let _ = av1::read_leb128(d);
            });
            g("codec::vp9::is_vp9_keyframe", &mut || {
                if let Err(e) = vp9::is_vp9_keyframe(d) {
                    let _ = format!("{} {:?}", e, e);
                }
            });
            g("codec::vp9::extract_vp9_config", &mut || {
                let _ = vp9::extract_vp9_config(d);
            });
            g("codec::vp9::is_valid_vp9_frame", &mut || {
                let _ = vp9::is_valid_vp9_frame(d);
            });
            g("codec::opus::is_valid_opus_packet", &mut || {
                let _ = opus::is_valid_opus_packet(d);
            });
            g("codec::opus::opus_packet_samples", &mut || {
                let _ = opus::opus_packet_samples(d);
            });
            g("codec::opus::opus_frame_count", &mut || {
                let _ = opus::opus_frame_count(d);
            });
        }
        FreeOp::ValidateVideoFrame { codec, data, key } => {
            g("validation::validate_video_frame", &mut || {
                let r = muxide::validation::validate_video_frame(vcodec(*codec), data, *key);
                let _ = format!("{:?}", r);
            });
        }
        FreeOp::ValidateAudioFrame { kind, data } => {
            g("validation::validate_audio_frame", &mut || {
                let r = muxide::validation::validate_audio_frame(acodec(*kind), data);
                let _ = format!("{:?}", r);
            });
        }
        FreeOp::ValidateConfigs { codec, w, h, fps_bits, akind, rate, ch, vframe, aframe, partial } => {
            use muxide::validation::*;
            let fps = f64::from_bits(*fps_bits);
            g("validation::validate_video_config", &mut || {
                let _ = validate_video_config(vcodec(*codec), *w, *h, fps);
            });
            g("validation::validate_audio_config", &mut || {
                let _ = validate_audio_config(acodec(*akind), *rate, *ch);
            });
            g("validation::validate_muxing_config", &mut || {
                let vc = VideoValidationConfig {
                    codec: if partial & 1 != 0 { None } else { Some(vcodec(*codec)) },
                    width: if partial & 2 != 0 { None } else { Some(*w) },
                    height: Some(*h),
                    framerate: if partial & 4 != 0 { None } else { Some(fps) },
                    sample_frame: if partial & 8 != 0 { None } else { Some((vframe.clone(), partial & 16 != 0)) },
                };
                let ac = AudioValidationConfig {
                    codec: if partial & 32 != 0 { None } else { Some(acodec(*akind)) },
                    sample_rate: Some(*rate),
                    channels: if partial & 64 != 0 { None } else { Some(*ch) },
                    sample_frame: if partial & 128 != 0 { None } else { Some(aframe.clone()) },
                };
                let r = validate_muxing_config(vc, ac);
                let _ = r.clone().with_message("m".into()).with_error("e".into());
                let _ = format!("{:?}", r);
            });
        }
        FreeOp::Values { a, b, c, s } => {
            g("codec::opus::opus_frame_duration_from_toc", &mut || {
                if let Some(d) = opus::opus_frame_duration_from_toc(*a) {
                    let _ = (d.samples(), d.seconds());
                }
            });
            g("codec::opus::OpusConfig", &mut || {
                let c1 = opus::OpusConfig::default().with_channels(*b).with_pre_skip(*c);
                let _ = (opus::OpusConfig::mono(), opus::OpusConfig::stereo(), format!("{:?}", c1));
            });
            g("codec::av1::obu_*", &mut || {
                let _ = (av1::obu_type(*a), av1::obu_has_extension(*a), av1::obu_has_size(*a));
            });
            g("codec::h265::is_hevc_keyframe_nal_type", &mut || {
                let _ = h265::is_hevc_keyframe_nal_type(*a);
            });
            g("api::FromStr/Display", &mut || {
                let v: Result<muxide::api::VideoCodec, _> = s.parse();
                let a2: Result<muxide::api::AudioCodec, _> = s.parse();
                let _ = format!("{:?} {:?}", v, a2);
                for k in 0..4 {
                    let _ = format!("{}", vcodec(k));
                }
                for k in 0..8 {
                    let _ = format!("{}", acodec(k));
                }
            });
            g("api::MuxerConfig/Metadata", &mut || {
                let m = muxide::api::Metadata::new().with_title(s.clone()).with_language(s.clone()).with_creation_time(*c as u64).with_current_time();
                let cfg = muxide::api::MuxerConfig::new(*a as u32, *b as u32, *c as f64).with_audio(acodec(*a % 8), *c as u32, *b as u16).with_metadata(m).with_fast_start(*a & 1 == 0);
                let _ = format!("{:?}", cfg);
            });
            g("codec::h264::AvcConfig / h265::HevcConfig", &mut || {
                let bytes = s.as_bytes().to_vec();
                let c1 = h264::AvcConfig::new(bytes.clone(), vec![*a]);
                let _ = (c1.profile_idc(), c1.profile_compatibility(), c1.level_idc(), h264::default_avc_config());
                let c2 = h265::HevcConfig::new(vec![*b], bytes, vec![]);
                let _ = (c2.general_profile_space(), c2.general_tier_flag(), c2.general_profile_idc(), c2.general_level_idc());
            });
            g("validation::ValidationResult", &mut || {
                let v = muxide::validation::ValidationResult::invalid(vec![s.clone()]).with_message(s.clone());
                let w = muxide::validation::ValidationResult::valid().with_error(s.clone());
                let _ = format!("{:?} {:?} {}", v, w, v == w);
            });
            g("invariant_ppt::log", &mut || {
                let _ = muxide::invariant_ppt::get_logged_invariants();
                muxide::invariant_ppt::clear_invariant_log();
            });
            g("fragmented::FragmentConfig::default", &mut || {
                let mut m = muxide::fragmented::FragmentedMuxer::new(muxide::fragmented::FragmentConfig::default());
                let _ = m.init_segment();
                let e = muxide::fragmented::FragmentedError::NonMonotonicDts { prev_dts: *c as u64, curr_dts: *a as u64 };
                let _ = format!("{} {:?}", e, e);
            });
        }
    }
    panics
}

fn norm_msg(m: &str) -> String {
    // value-free: digits collapse to '#', quoted / back-quoted text (which echoes input) is
    // dropped, anything that is not printable ASCII becomes '?'
    let mut out = String::new();
    let mut quote: Option<char> = None;
    for c in m.chars() {
        match quote {
            Some(q) => {
                if c == q {
                    quote = None;
                    out.push(q);
                }
            }
            None => {
                if c == '`' || c == '"' || c == '\'' {
                    quote = Some(c);
                    out.push(c);
                    out.push('~');
                } else if c.is_ascii_digit() {
                    if !out.ends_with('#') {
                        out.push('#');
                    }
                } else if c.is_ascii_graphic() || c == ' ' {
                    out.push(c);
                } else {
                    out.push('?');
                }
            }
        }
    }
    out.chars().take(90).collect()
}

fn norm_loc(l: &str) -> String {
    let l = l.rsplit_once(':').map(|x| x.0).unwrap_or(l);
    match l.find("src/") {
        Some(p) if l.contains("/repo/") || l.starts_with("src/") => l[p..].to_string(),
        _ => {
            // dependency or std location: keep the crate-ish tail
            let parts: Vec<&str> = l.rsplit('/').take(2).collect();
            parts.into_iter().rev().collect::<Vec<_>>().join("/")
        }
    }
}

pub fn panic_violation(entry: &str, msg: &str, loc: &str, ctx: &str) -> Violation {
    Violation::new("C12", format!("panic|{}|{}|{}", entry, norm_loc(loc), norm_msg(msg)), format!("{} panicked at {}: {} ({})", entry, loc, msg.escape_default(), ctx.escape_default()))
}

/// All panics observed in a progressive execution.
pub fn check_exec(h: &History, ex: &Exec, obs: &mut Obs) -> Vec<Violation> {
    let mut out = Vec::new();
    if let Res::Panic { msg, loc } = &ex.build {
        out.push(panic_violation("MuxerBuilder::build", msg, loc, &h.cfg.cell()));
    }
    for (i, (op, r)) in h.ops.iter().zip(ex.results.iter()).enumerate() {
        obs.count("muxer_calls", !matches!(r, Res::Skipped) as u64);
        if let Res::Panic { msg, loc } = r {
            out.push(panic_violation(&format!("Muxer::{}", op.name()), msg, loc, &format!("call #{} {}", i, op.brief())));
        }
    }
    out
}

pub fn check_fexec(h: &FHistory, ex: &crate::exec::FExec, obs: &mut Obs) -> Vec<Violation> {
    let mut out = Vec::new();
    if let Res::Panic { msg, loc } = &ex.build {
        out.push(panic_violation(if h.cfg.via_builder { "MuxerBuilder::new_with_fragment" } else { "FragmentedMuxer::new" }, msg, loc, ""));
    }
    for (i, (op, r)) in h.ops.iter().zip(ex.results.iter()).enumerate() {
        obs.count("fragmented_calls", !matches!(r, FRes::Skipped) as u64);
        if let FRes::Panic { msg, loc } = r {
            let name = match op {
                FOp::Write { .. } => "write_video",
                FOp::Flush => "flush_segment",
                FOp::Ready => "ready_to_flush",
                FOp::CurDur => "current_fragment_duration_ms",
                FOp::Init => "init_segment",
            };
            out.push(panic_violation(&format!("FragmentedMuxer::{}", name), msg, loc, &format!("call #{} {}", i, op.brief())));
        }
    }
    out
}
