//! C10 — fragmented muxing conserves samples across any write/flush interleaving.

use super::*;
use crate::exec::FExec;

fn v(sig: String, detail: String) -> Violation {
    Violation::new("C10", sig, detail)
}

fn queued_in_snapshot(s: &str) -> Option<usize> {
    let a = s.find("q=[")? + 3;
    let b = s.find("] seq=")?;
    Some(s[a..b].matches('(').count())
}

pub fn check(h: &FHistory, ex: &FExec, obs: &mut Obs) -> Vec<Violation> {
    let mut out = Vec::new();
    if !matches!(ex.build, Res::Ok) {
        return out;
    }
    // model
    let mut queue: Vec<(u64, u64, &[u8], bool)> = Vec::new();
    let mut last_dts: Option<u64> = None;
    let mut next_seq = 1u32;
    let mut accepted = 0usize;
    let mut emitted = 0usize;
    let have_snaps = ex.snaps.len() == h.ops.len() + 1;
    for (i, (op, res)) in h.ops.iter().zip(ex.results.iter()).enumerate() {
        if matches!(res, FRes::Skipped | FRes::Panic { .. }) {
            break;
        }
        match (op, res) {
            (FOp::Write { pts, dts, data, sync }, r) => {
                let must_reject = last_dts.map(|l| *dts < l).unwrap_or(false);
                match r {
                    FRes::Ok => {
                        if must_reject {
                            out.push(v("write-accepted|dts-lower-than-previous".into(), format!("op #{}: write with dts {} accepted although the previous accepted dts is {:?}", i, dts, last_dts)));
                        }
                        queue.push((*pts, *dts, data.as_slice(), *sync));
                        last_dts = Some(*dts);
                        accepted += 1;
                        obs.count("writes_accepted", 1);
                    }
                    FRes::Err { prev, curr } => {
                        if !must_reject {
                            out.push(v("write-rejected|dts-not-lower".into(), format!("op #{}: write with dts {} rejected (prev={} curr={}) although the previous accepted dts is {:?}", i, dts, prev, curr, last_dts)));
                        }
                        obs.count("writes_rejected", 1);
                    }
                    _ => {}
                }
            }
            (FOp::Flush, FRes::Seg(seg)) => match seg {
                None => {
                    if !queue.is_empty() {
                        out.push(v("flush-none|queue-not-empty".into(), format!("op #{}: flush returned None with {} samples queued", i, queue.len())));
                        queue.clear();
                    }
                    obs.count("empty_flushes", 1);
                }
                Some(bytes) => {
                    if queue.is_empty() {
                        out.push(v("flush-some|queue-empty".into(), format!("op #{}: flush returned a segment with nothing queued", i)));
                    }
                    let mut scratch = Obs::default();
                    let (c2, frag) = super::c02::check_segment(bytes, &mut scratch);
                    // the samples are located inside the segment: its boxes (moof, mdat) must
                    // tile it exactly, or a reader cannot even find the run
                    if let Some(t) = c2.iter().find(|x| x.sig.contains("|tiling|") || x.sig.contains("|top|")) {
                        let rule: String = t.sig.chars().filter(|c| !c.is_ascii_digit()).collect();
                        out.push(v(format!("segment-extent|{}", rule.replace("C02|", "")), format!("op #{}: {}", i, t.detail)));
                    }
                    if frag.sequence_number != next_seq {
                        out.push(v("sequence-number".into(), format!("op #{}: mfhd sequence number {} but this is segment #{} emitted", i, frag.sequence_number, next_seq)));
                    }
                    next_seq = next_seq.wrapping_add(1);
                    if frag.samples.len() != queue.len() {
                        out.push(v(
                            format!("sample-count|{}", if frag.samples.len() < queue.len() { "lost" } else { "extra" }),
                            format!("op #{}: segment describes {} samples, {} were queued", i, frag.samples.len(), queue.len()),
                        ));
                    }
                    let oversize = queue.iter().any(|q| q.2.len() > u32::MAX as usize);
                    for (k, (fs, q)) in frag.samples.iter().zip(queue.iter()).enumerate() {
                        if oversize {
                            break;
                        }
                        let a = fs.offset as usize;
                        let got = a.checked_add(fs.size as usize).and_then(|b| bytes.get(a..b));
                        match got {
                            None => {
                                out.push(v("sample-outside-segment".into(), format!("op #{}: sample {} located at {}+{} outside the {}-byte segment", i, k + 1, fs.offset, fs.size, bytes.len())));
                                break;
                            }
                            Some(g) => {
                                if g != q.2 {
                                    out.push(v(
                                        format!("sample-bytes|{}", if g.len() != q.2.len() { "size" } else { "content" }),
                                        format!("op #{}: sample {} resolves to {} ; accepted write was {}", i, k + 1, crate::util::hex_short(g), crate::util::hex_short(q.2)),
                                    ));
                                    break;
                                }
                            }
                        }
                        obs.count("sample_bytes_resolved", fs.size as u64);
                        // "not altered": the sample keeps its presentation time relative to its
                        // decode time and its sync flag (offsets beyond 32 bits are C16's zone)
                        let want_cts = q.0 as i128 - q.1 as i128;
                        if want_cts.abs() <= i32::MAX as i128 && fs.cts_off as i128 != want_cts {
                            out.push(v("sample-altered|composition-offset".into(), format!("op #{}: sample {} composition offset {} but the accepted write had pts - dts = {}", i, k + 1, fs.cts_off, want_cts)));
                            break;
                        }
                        if (fs.flags & 0x0001_0000 != 0) == q.3 {
                            out.push(v("sample-altered|sync-flag".into(), format!("op #{}: sample {} non-sync bit {} but the accepted write had sync {}", i, k + 1, fs.flags & 0x0001_0000 != 0, q.3)));
                            break;
                        }
                    }
                    // "not altered": decode-time spacing inside the segment is that of the writes
                    // (gaps beyond 32 bits are C16's zone; the last sample's duration is unknowable)
                    if frag.samples.len() == queue.len() && queue.windows(2).all(|w| w[1].1 - w[0].1 <= u32::MAX as u64) {
                        for k in 0..queue.len().saturating_sub(1) {
                            let want = queue[k + 1].1 - queue[k].1;
                            if frag.samples[k].dur as u64 != want {
                                out.push(v("sample-altered|decode-time-spacing".into(), format!("op #{}: sample {} is followed after {} ticks but the accepted writes are {} ticks apart", i, k + 1, frag.samples[k].dur, want)));
                                break;
                            }
                        }
                    }
                    // ... and the segment places its first sample at the decode time it was written with
                    if let (Some(base), Some(first)) = (frag.base_decode_time, queue.first()) {
                        if base != first.1 {
                            out.push(v("sample-altered|decode-time".into(), format!("op #{}: segment starts at decode time {} but its first sample was written with dts {}", i, base, first.1)));
                        }
                    }
                    // all samples inside the mdat payload, tiling it
                    if let Some((ps, pl)) = frag.mdat {
                        let mut cur = ps as u64;
                        let mut ok = true;
                        for fs in &frag.samples {
                            if fs.offset != cur {
                                ok = false;
                                break;
                            }
                            cur += fs.size as u64;
                        }
                        if !ok || cur != (ps + pl) as u64 {
                            out.push(v("mdat-cover".into(), format!("op #{}: sample ranges do not tile the mdat payload {}..{}", i, ps, ps + pl)));
                        }
                    }
                    emitted += queue.len();
                    queue.clear();
                    obs.count("segments_emitted", 1);
                    obs.max("max_samples_in_a_segment", frag.samples.len() as u64);
                }
            },
            (FOp::Ready, FRes::Bool(_)) | (FOp::CurDur, FRes::U64(_)) | (FOp::Init, FRes::Bytes(_)) => {
                if have_snaps {
                    if let (Some(b), Some(a)) = (&ex.snaps[i], &ex.snaps[i + 1]) {
                        if a != b {
                            let name = match op {
                                FOp::Ready => "ready_to_flush",
                                FOp::CurDur => "current_fragment_duration_ms",
                                _ => "init_segment",
                            };
                            out.push(v(format!("query-changes-state|{}", name), format!("op #{} {}: state before {} ; after {}", i, name, b, a)));
                        }
                        obs.count("queries_snapshotted", 1);
                    }
                }
            }
            _ => {}
        }
        // conservation at the quiescent point after the call
        if have_snaps {
            if let Some(snap) = &ex.snaps[i + 1] {
                if let Some(q) = queued_in_snapshot(snap) {
                    if accepted != emitted + q {
                        out.push(v("conservation".into(), format!("after op #{}: accepted {} != emitted {} + queued {}", i, accepted, emitted, q)));
                        break;
                    }
                    obs.count("conservation_points", 1);
                }
            }
        }
        if !out.is_empty() {
            break;
        }
    }
    out
}
