//! C01 — every sample in the file resolves to exactly the bytes and key flag submitted.

use super::*;

pub fn check(a: &Analysis, obs: &mut Obs) -> Vec<Violation> {
    let mut out = Vec::new();
    if !a.finished_ok() {
        return out;
    }
    let shape = a.shape();
    let v = |sig: String, detail: String| Violation::new("C01", sig, detail);
    if a.movie.errors.iter().any(|e| e == "no moov") {
        out.push(v("unresolvable|no moov".into(), "finished file has no moov".into()));
        return out;
    }
    let codec = a.h.cfg.vcodec;
    // ---- video
    let Some(vt) = a.video_track() else {
        out.push(v("no-video-track".into(), "no trak with handler 'vide'".into()));
        return out;
    };
    let lv = &a.ledger.video;
    if vt.samples.len() != lv.len() {
        out.push(v(
            format!("video|sample-count|{}", shape),
            format!("video track resolves {} samples, {} frames were accepted", vt.samples.len(), lv.len()),
        ));
    }
    let mut ranges: Vec<(u64, u64, &'static str, usize)> = Vec::new();
    let mut bytes_checked = 0u64;
    for (i, (s, f)) in vt.samples.iter().zip(lv.iter()).enumerate() {
        let exp = expected_video_payload(codec, a.h.ops[f.op].data().unwrap_or(&[]));
        match a.sample_bytes(s) {
            None => {
                out.push(v(format!("video|sample-out-of-file|{}", shape), format!("video sample {} range {}+{} outside the file", i + 1, s.offset, s.size)));
                break;
            }
            Some(got) => {
                bytes_checked += got.len() as u64;
                if got != exp.as_slice() {
                    let what = if got.len() != exp.len() { "sample-size" } else { "sample-bytes" };
                    out.push(v(
                        format!("video|{}|{}|{}", what, codec_name(codec), shape),
                        format!(
                            "video sample {} (op {}): file has {} bytes {} ; expected {} bytes {}",
                            i + 1,
                            f.op,
                            got.len(),
                            crate::util::hex_short(got),
                            exp.len(),
                            crate::util::hex_short(&exp)
                        ),
                    ));
                    break;
                }
            }
        }
        if let Some(k) = f.key {
            if s.sync != k {
                out.push(v(
                    format!("video|sync-flag|{}", shape),
                    format!("video sample {}: sync={} but submitted is_keyframe={}", i + 1, s.sync, k),
                ));
                break;
            }
        } else {
            // encode_video submits no flag: the documented detector decides. Judged only where
            // that decision is unambiguous for the submitted bytes (model side, C04's detect_key).
            let data = a.h.ops[f.op].data().unwrap_or(&[]);
            match super::c04::detect_key(codec, data, i as u64) {
                Some(k) if s.sync != k => {
                    out.push(v(
                        format!("video|sync-flag-of-encode_video|{}|{}", codec_name(codec), shape),
                        format!("video sample {} (encode_video): sync={} but the frame {} a key frame by the documented detection", i + 1, s.sync, if k { "is" } else { "is not" }),
                    ));
                    break;
                }
                _ => {}
            }
            if i == 0 && !s.sync {
                out.push(v(format!("video|first-sample-not-sync|{}", shape), "first sample (encode_video) is not a sync sample".into()));
            }
        }
        ranges.push((s.offset, s.size as u64, "video", i));
    }
    // ---- audio
    let acfg = a.h.cfg.audio_effective();
    let at = a.audio_track();
    let la = &a.ledger.audio;
    match (acfg, at) {
        (Some(ac), Some(at)) => {
            if at.samples.len() != la.len() {
                out.push(v(
                    format!("audio|sample-count|{}", shape),
                    format!("audio track resolves {} samples, {} frames were accepted", at.samples.len(), la.len()),
                ));
            }
            for (i, (s, f)) in at.samples.iter().zip(la.iter()).enumerate() {
                let exp = expected_audio_payload(ac, a.h.ops[f.op].data().unwrap_or(&[]));
                match a.sample_bytes(s) {
                    None => {
                        out.push(v(format!("audio|sample-out-of-file|{}", shape), format!("audio sample {} range {}+{} outside the file", i + 1, s.offset, s.size)));
                        break;
                    }
                    Some(got) => {
                        bytes_checked += got.len() as u64;
                        if got != exp.as_slice() {
                            let what = if got.len() != exp.len() { "sample-size" } else { "sample-bytes" };
                            out.push(v(
                                format!("audio|{}|{}|{}", what, if ac.is_opus() { "opus" } else { "aac" }, shape),
                                format!(
                                    "audio sample {} (op {}): file has {} bytes {} ; expected {} bytes {}",
                                    i + 1,
                                    f.op,
                                    got.len(),
                                    crate::util::hex_short(got),
                                    exp.len(),
                                    crate::util::hex_short(&exp)
                                ),
                            ));
                            break;
                        }
                    }
                }
                ranges.push((s.offset, s.size as u64, "audio", i));
            }
        }
        (Some(_), None) => out.push(v("audio|no-audio-track".into(), "audio configured but no trak with handler 'soun'".into())),
        (None, Some(_)) => out.push(v("audio|unexpected-audio-track".into(), "no audio configured but a 'soun' trak exists".into())),
        (None, None) => {}
    }
    // ---- ranges: inside mdat, disjoint, exact cover
    let total: u64 = ranges.iter().map(|r| r.1).sum();
    match a.movie.mdat {
        Some((ps, pl)) => {
            ranges.sort();
            let mut cur = ps as u64;
            let mut ok = true;
            for (off, sz, kind, idx) in &ranges {
                if *off != cur {
                    out.push(v(
                        format!("cover|{}|{}", if *off < cur { "overlap" } else { "gap" }, shape),
                        format!("{} sample {} starts at {} but the previous range ends at {} (mdat payload {}..{})", kind, idx + 1, off, cur, ps, ps + pl),
                    ));
                    ok = false;
                    break;
                }
                cur += sz;
            }
            if ok && cur != (ps + pl) as u64 {
                out.push(v(format!("cover|payload-end|{}", shape), format!("sample ranges end at {} but the mdat payload ends at {}", cur, ps + pl)));
            }
        }
        None => {
            if total > 0 {
                out.push(v(format!("cover|no-mdat|{}", shape), format!("{} sample bytes but no mdat box", total)));
            }
        }
    }
    obs.count("sample_bytes_resolved", bytes_checked);
    obs.count("video_samples_resolved", vt.samples.len() as u64);
    obs.count("audio_samples_resolved", at.map(|t| t.samples.len()).unwrap_or(0) as u64);
    if a.ledger.reordered() {
        obs.count("reordered_histories", 1);
        if acfg.is_some() && !la.is_empty() {
            obs.count("reordered_with_audio", 1);
        }
    }
    out
}
