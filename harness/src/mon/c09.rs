//! C09 — audio/video synchronisation of the input is preserved.

use super::*;
use crate::bmff::Track;

fn v(sig: String, detail: String) -> Violation {
    Violation::new("C09", sig, detail)
}

/// Presentation time (media ticks, on the movie timeline) of composition time `ct` of a track,
/// through its edit list when present. None = not presented / unsupported edit shape.
pub fn present(t: &Track, movie_ts: u32, ct: i64) -> Option<i64> {
    match &t.elst {
        None => Some(ct),
        Some(entries) => {
            let mts = t.mdhd.timescale as i128;
            let mut movie_pos: i128 = 0; // in media ticks
            for e in entries {
                let seg = e.segment_duration as i128 * mts / movie_ts.max(1) as i128;
                if e.media_time == -1 {
                    movie_pos += seg;
                    continue;
                }
                let m = e.media_time as i128;
                let c = ct as i128;
                let last = std::ptr::eq(e, entries.last().unwrap());
                if c >= m && (c < m + seg || last || e.segment_duration == 0) {
                    return Some((movie_pos + (c - m)) as i64);
                }
                movie_pos += seg;
            }
            None
        }
    }
}

pub fn check(a: &Analysis, obs: &mut Obs) -> Vec<Violation> {
    let mut out = Vec::new();
    if !a.finished_ok() || a.ledger.any_huge {
        return out;
    }
    let (Some(vt), Some(at)) = (a.video_track(), a.audio_track()) else {
        return out;
    };
    let (lv, la) = (&a.ledger.video, &a.ledger.audio);
    if lv.is_empty() || la.is_empty() || vt.samples.len() != lv.len() || at.samples.len() != la.len() {
        return out;
    }
    let mts = a.movie.mvhd.timescale;
    let v0 = &vt.samples[0];
    let Some(pv0) = present(vt, mts, v0.dts as i64 + v0.cts_off) else {
        out.push(v("first-video-sample-not-presented".into(), "edit list hides the first video sample".into()));
        return out;
    };
    // sample times count in each track's OWN media timescale: bring both to 90 kHz ticks
    if vt.mdhd.timescale == 0 || at.mdhd.timescale == 0 {
        out.push(v("media-timescale-zero".into(), format!("video mdhd timescale {}, audio mdhd timescale {}", vt.mdhd.timescale, at.mdhd.timescale)));
        return out;
    }
    let to90k = |t: &Track, x: i64| -> i64 { (x as i128 * 90_000 / t.mdhd.timescale as i128) as i64 };
    let pv0 = to90k(vt, pv0);
    let p0 = &lv[0].pts;
    let amb = a.ledger.any_ambiguous as i64;
    let tol = 1 + amb;
    let mut errs: Vec<i64> = Vec::new();
    for (s, f) in at.samples.iter().zip(la.iter()) {
        let Some(pa) = present(at, mts, s.dts as i64 + s.cts_off) else {
            out.push(v("audio-sample-not-presented".into(), "edit list hides an accepted audio sample".into()));
            return out;
        };
        let observed = to90k(at, pa) - pv0;
        let expected = f.pts.lo().unwrap() as i64 - p0.lo().unwrap() as i64;
        errs.push(observed - expected);
    }
    obs.count("audio_samples_checked", errs.len() as u64);
    let worst = errs.iter().copied().max_by_key(|e| e.abs()).unwrap_or(0);
    if worst.abs() <= tol {
        obs.count("histories_in_sync", 1);
        let a0 = la[0].pts.lo().unwrap() as i64;
        let d0 = lv[0].dts.lo().unwrap() as i64;
        if a0 != d0 {
            obs.count("in_sync_with_offset_start", 1);
        }
        return out;
    }
    let d0_minus_a0 = lv[0].dts.lo().unwrap() as i64 - la[0].pts.lo().unwrap() as i64;
    let constant = errs.iter().all(|e| (e - errs[0]).abs() <= tol);
    let sig = if constant && (errs[0] - d0_minus_a0).abs() <= tol {
        "constant-shift|shift = first video decode time - first audio time (no start offset / edit list written)".to_string()
    } else if constant {
        "constant-shift|other".to_string()
    } else {
        "non-constant-error".to_string()
    };
    out.push(v(
        sig,
        format!(
            "audio sample presentation relative to the first video sample is off by {} ticks (first video pts {:?}s dts {:?}s, first audio pts {:?}s); per-sample errors {:?}",
            worst,
            lv[0].pts_s,
            lv[0].dts_s,
            la[0].pts_s,
            &errs[..errs.len().min(8)]
        ),
    ));
    out
}
