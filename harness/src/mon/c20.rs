//! C20 — the CLI writes what the library writes and fails loudly otherwise.

use serde::{Deserialize, Serialize};

#[derive(Serialize, Deserialize, Clone, Debug, PartialEq)]
pub struct CliCase {
    pub args: Vec<String>,
}

impl CliCase {
    pub fn brief(&self) -> String {
        format!("muxide {}", self.args.join(" "))
    }
}
