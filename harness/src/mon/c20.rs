//! C20 — the CLI writes what the library writes and fails loudly otherwise.

use super::*;
use crate::util::hexbytes;
use serde::{Deserialize, Serialize};
use std::io::Read;
use std::process::{Command, Stdio};
use std::time::{Duration, Instant};

#[derive(Serialize, Deserialize, Clone, Debug, PartialEq)]
pub struct FileSpec {
    /// false: the path is given on the command line but no such file exists
    pub exists: bool,
    #[serde(with = "hexbytes")]
    pub content: Vec<u8>,
}

#[derive(Serialize, Deserialize, Clone, Debug, PartialEq, Default)]
pub struct CliCase {
    pub cmd: String,
    pub vcodec: Option<String>,
    pub width: Option<u32>,
    pub height: Option<u32>,
    pub fps: Option<String>,
    pub acodec: Option<String>,
    pub sample_rate: Option<u32>,
    pub channels: Option<u8>,
    pub title: Option<String>,
    pub language: Option<String>,
    pub json: bool,
    pub verbose: bool,
    pub video: Option<FileSpec>,
    pub audio: Option<FileSpec>,
    pub info: Option<FileSpec>,
    /// what the generator intended: "valid" | "invalid:<reason>" | "arbitrary"
    pub intent: String,
    /// validate: write the report to a file (--output) instead of stdout
    #[serde(default)]
    pub report_file: bool,
    /// mux: where --output points. 0 = a file in the scratch directory, 1 = /dev/full (opens,
    /// every write fails with ENOSPC), 2 = a path inside a directory that does not exist
    #[serde(default)]
    pub out_kind: u8,
}

impl CliCase {
    pub fn brief(&self) -> String {
        format!(
            "muxide {} vcodec={:?} {}x{} fps={:?} acodec={:?} rate={:?} ch={:?} title={} lang={:?} json={} verbose={} video={:?} audio={:?} info={:?} [{}]",
            self.cmd,
            self.vcodec,
            self.width.map(|x| x.to_string()).unwrap_or("-".into()),
            self.height.map(|x| x.to_string()).unwrap_or("-".into()),
            self.fps,
            self.acodec,
            self.sample_rate,
            self.channels,
            self.title.is_some(),
            self.language,
            self.json,
            self.verbose,
            self.video.as_ref().map(|f| (f.exists, f.content.len())),
            self.audio.as_ref().map(|f| (f.exists, f.content.len())),
            self.info.as_ref().map(|f| (f.exists, f.content.len())),
            self.intent
        )
    }
}

fn v(sig: String, detail: String) -> Violation {
    Violation::new("C20", sig, detail)
}

pub fn cli_bin() -> String {
    std::env::var("VH_CLI_BIN").unwrap_or_else(|_| format!("{}/cli/debug/muxide", crate::util::target_dir()))
}

pub struct Ran {
    pub code: Option<i32>,
    pub stdout: String,
    pub stderr: String,
    pub timed_out: bool,
}

pub fn spawn(args: &[String], timeout: Duration) -> std::io::Result<Ran> {
    let mut child = Command::new(cli_bin()).args(args).stdin(Stdio::null()).stdout(Stdio::piped()).stderr(Stdio::piped()).env("NO_COLOR", "1").spawn()?;
    let start = Instant::now();
    let mut timed_out = false;
    loop {
        match child.try_wait()? {
            Some(_) => break,
            None => {
                if start.elapsed() > timeout {
                    let _ = child.kill();
                    timed_out = true;
                    break;
                }
                std::thread::sleep(Duration::from_millis(2));
            }
        }
    }
    let status = child.wait()?;
    let mut so = String::new();
    let mut se = String::new();
    if let Some(mut o) = child.stdout.take() {
        let mut b = Vec::new();
        let _ = o.read_to_end(&mut b);
        so = String::from_utf8_lossy(&b).to_string();
    }
    if let Some(mut e) = child.stderr.take() {
        let mut b = Vec::new();
        let _ = e.read_to_end(&mut b);
        se = String::from_utf8_lossy(&b).to_string();
    }
    Ok(Ran { code: status.code(), stdout: so, stderr: se, timed_out })
}

/// Oracle for "non-empty even-length hexadecimal text": Some(bytes) when valid.
pub fn hex_text(content: &[u8]) -> Option<Vec<u8>> {
    let s = std::str::from_utf8(content).ok()?;
    let digits: Vec<char> = s.chars().filter(|c| !matches!(c, ' ' | '\n' | '\t' | '\r')).collect();
    if digits.is_empty() || digits.len() % 2 != 0 || !digits.iter().all(|c| c.is_ascii_hexdigit()) {
        return None;
    }
    let t: String = digits.into_iter().collect();
    crate::util::unhex(&t.to_lowercase())
}

pub fn vcodec_of(name: &str) -> Option<u8> {
    match name.to_lowercase().as_str() {
        "h264" | "h.264" | "avc" => Some(H264),
        "h265" | "h.265" | "hevc" => Some(H265),
        "av1" => Some(AV1),
        "vp9" => Some(VP9),
        _ => None,
    }
}

pub fn acodec_of(name: &str) -> Option<u8> {
    match name.to_lowercase().as_str() {
        "aac" | "aac-lc" => Some(1),
        "aac-main" => Some(2),
        "aac-ssr" => Some(3),
        "aac-ltp" => Some(4),
        "aac-he" => Some(5),
        "aac-hev2" => Some(6),
        "opus" => Some(7),
        "none" => Some(0),
        _ => None,
    }
}

pub fn eval(c: &CliCase, obs: &mut Obs) -> Vec<Violation> {
    let mut out = Vec::new();
    let dir = format!("{}/tmp/cli-{}-{:x}", crate::util::target_dir(), std::process::id(), crate::util::fnv(format!("{:?}", c).as_bytes()));
    let _ = std::fs::remove_dir_all(&dir);
    if std::fs::create_dir_all(&dir).is_err() {
        obs.inconclusive += 1;
        return out;
    }
    let put = |name: &str, f: &Option<FileSpec>| -> Option<String> {
        f.as_ref().map(|f| {
            let p = format!("{}/{}", dir, name);
            if f.exists {
                let _ = std::fs::write(&p, &f.content);
            }
            p
        })
    };
    let vpath = put("video.hex", &c.video);
    let apath = put("audio.hex", &c.audio);
    let ipath = put("input.bin", &c.info);
    let opath = match c.out_kind {
        1 if std::path::Path::new("/dev/full").exists() => "/dev/full".to_string(),
        2 => format!("{}/no/such/dir/out.mp4", dir),
        _ => format!("{}/out.mp4", dir),
    };
    let unwritable = opath != format!("{}/out.mp4", dir);
    // the output path may already hold an older (longer or shorter) file: re-running the tool
    // with the same --output must still leave exactly the new file there
    let stale = crate::util::fnv(format!("{:?}", c).as_bytes()) % 3;
    if stale != 2 && !unwritable {
        let old: Vec<u8> = if stale == 0 { vec![0x5a; 96 * 1024] } else { b"old short".to_vec() };
        let _ = std::fs::write(&opath, &old);
        let _ = std::fs::write(format!("{}/report.json", dir), &old);
        obs.count("runs_with_a_pre_existing_output_file", 1);
    }
    let mut args: Vec<String> = Vec::new();
    if c.verbose {
        args.push("--verbose".into());
    }
    if c.json {
        args.push("--json".into());
    }
    args.push("--no-progress".into());
    args.push(c.cmd.clone());
    match c.cmd.as_str() {
        "mux" => {
            if let Some(p) = &vpath {
                args.extend(["--video".into(), p.clone()]);
            }
            if let Some(p) = &apath {
                args.extend(["--audio".into(), p.clone()]);
            }
            args.extend(["--output".into(), opath.clone()]);
            if let Some(x) = &c.vcodec {
                args.extend(["--video-codec".into(), x.clone()]);
            }
            if let Some(x) = c.width {
                args.extend(["--width".into(), x.to_string()]);
            }
            if let Some(x) = c.height {
                args.extend(["--height".into(), x.to_string()]);
            }
            if let Some(x) = &c.fps {
                args.extend(["--fps".into(), x.clone()]);
            }
            if let Some(x) = &c.acodec {
                args.extend(["--audio-codec".into(), x.clone()]);
            }
            if let Some(x) = c.sample_rate {
                args.extend(["--sample-rate".into(), x.to_string()]);
            }
            if let Some(x) = c.channels {
                args.extend(["--channels".into(), x.to_string()]);
            }
            if let Some(x) = &c.title {
                args.extend(["--title".into(), x.clone()]);
            }
            if let Some(x) = &c.language {
                args.extend(["--language".into(), x.clone()]);
            }
        }
        "validate" => {
            if let Some(p) = &vpath {
                args.extend(["--video".into(), p.clone()]);
            }
            if let Some(p) = &apath {
                args.extend(["--audio".into(), p.clone()]);
            }
            if c.report_file {
                args.extend(["--output".into(), format!("{}/report.json", dir)]);
            }
        }
        _ => {
            args.push(ipath.clone().unwrap_or_else(|| format!("{}/missing.bin", dir)));
        }
    }
    let ran = match spawn(&args, Duration::from_secs(20)) {
        Ok(r) => r,
        Err(e) => {
            obs.inconclusive += 1;
            obs.set("spawn_errors", e.to_string());
            let _ = std::fs::remove_dir_all(&dir);
            return out;
        }
    };
    obs.count("processes_spawned", 1);
    obs.set("exit_codes", format!("{}:{:?}", c.cmd, ran.code));
    let both = format!("{}\n{}", ran.stdout, ran.stderr);
    if ran.timed_out {
        out.push(v(format!("{}|does-not-terminate", c.cmd), format!("{} still running after 20 s", c.brief())));
        let _ = std::fs::remove_dir_all(&dir);
        return out;
    }
    match c.cmd.as_str() {
        "mux" => {
            // library-side expectation
            let vb = c.video.as_ref().filter(|f| f.exists).and_then(|f| hex_text(&f.content));
            let ab = c.audio.as_ref().filter(|f| f.exists).and_then(|f| hex_text(&f.content));
            let vc = c.vcodec.as_deref().map(vcodec_of).unwrap_or(Some(H264));
            let ac = c.acodec.as_deref().map(acodec_of).unwrap_or(Some(1));
            let fps: Option<f64> = c.fps.as_ref().and_then(|s| s.parse().ok());
            let params_ok = c.video.is_some()
                && vb.is_some()
                && vc.is_some()
                && matches!((c.width, c.height), (Some(w), Some(h)) if (320..=4096).contains(&w) && (240..=2160).contains(&h))
                && fps.map(|f| f > 0.0 && f <= 120.0).unwrap_or(false)
                && (c.audio.is_none() || (ab.is_some() && matches!(ac, Some(1..=7)) && c.sample_rate.map(|r| (1..=192_000).contains(&r)).unwrap_or(false) && c.channels.map(|n| (1..=8).contains(&n)).unwrap_or(false)));
            let mut lib_ok = false;
            let mut lib_bytes = Vec::new();
            let mut lib_counts = (0u64, 0u64);
            if params_ok {
                let mut cfg = Cfg::basic(vc.unwrap());
                cfg.width = c.width.unwrap();
                cfg.height = c.height.unwrap();
                cfg.fps_bits = fps.unwrap().to_bits();
                if c.audio.is_some() {
                    cfg.audio = Some(AudioCfg { kind: ac.unwrap(), rate: c.sample_rate.unwrap(), channels: c.channels.unwrap() as u16 });
                }
                if c.title.is_some() || c.language.is_some() {
                    cfg.meta = true;
                    cfg.title = c.title.clone();
                    cfg.lang = c.language.clone();
                }
                let mut ops = vec![Op::wv(0.0, vb.clone().unwrap(), true)];
                if let Some(a) = &ab {
                    if c.audio.is_some() {
                        ops.push(Op::wa(0.0, a.clone()));
                    }
                }
                ops.push(Op::Finish(FinishKind::FinishStats));
                let h = History { cfg, ops };
                let (ex, sink) = crate::exec::run(&h, &crate::exec::ExecOpts::default());
                // an output that cannot be written is an invalid parameter of the run: the tool
                // must fail loudly whatever the library does with a healthy sink
                lib_ok = !unwritable && matches!(ex.build, Res::Ok) && ex.results.iter().all(|r| r.is_ok());
                lib_bytes = sink.bytes();
                if let Some(Res::OkStats(s)) = ex.results.last() {
                    lib_counts = (s.video_frames, s.audio_frames);
                }
            }
            let completed = both.contains("Muxing complete");
            if lib_ok {
                obs.count("mux_valid_cases", 1);
                if ran.code != Some(0) {
                    out.push(v("mux|valid-options-but-failure".into(), format!("{} exited with {:?}: {}", c.brief(), ran.code, both.chars().take(300).collect::<String>())));
                } else {
                    let file = std::fs::read(&opath).unwrap_or_default();
                    if file != lib_bytes {
                        let p = file.iter().zip(lib_bytes.iter()).position(|(a, b)| a != b).unwrap_or(file.len().min(lib_bytes.len()));
                        out.push(v("mux|file-differs-from-library".into(), format!("{}: CLI file {} bytes, library {} bytes, first difference at {}", c.brief(), file.len(), lib_bytes.len(), p)));
                    }
                    // reported counts
                    let (rv, ra) = if c.json {
                        let j: serde_json::Value = serde_json::from_str(ran.stdout.trim()).unwrap_or(serde_json::Value::Null);
                        (j["video_frames"].as_u64(), j["audio_frames"].as_u64())
                    } else {
                        let grab = |k: &str| ran.stdout.lines().find_map(|l| l.trim().strip_prefix(k).and_then(|x| x.trim().parse::<u64>().ok()));
                        (grab("Video frames:"), grab("Audio frames:"))
                    };
                    if (rv, ra) != (Some(lib_counts.0), Some(lib_counts.1)) {
                        out.push(v("mux|reported-counts".into(), format!("{}: CLI reports {:?}/{:?}, library stats {}/{}", c.brief(), rv, ra, lib_counts.0, lib_counts.1)));
                    }
                    obs.nontrivial(crate::util::fnv(&file));
                    obs.count("mux_files_compared", 1);
                }
            } else {
                obs.count("mux_invalid_cases", 1);
                obs.set("invalid_intents", c.intent.clone());
                if ran.code == Some(0) {
                    out.push(v(format!("mux|invalid-but-exit-0|{}", c.intent.split(':').nth(1).unwrap_or("?")), format!("{} exited successfully; output: {}", c.brief(), both.chars().take(300).collect::<String>())));
                }
                if completed {
                    out.push(v(format!("mux|invalid-but-reports-completion|{}", c.intent.split(':').nth(1).unwrap_or("?")), format!("{} printed 'Muxing complete'", c.brief())));
                }
                obs.nontrivial(crate::util::fnv(format!("{:?}", c).as_bytes()));
            }
        }
        "validate" => {
            let ok_file = |f: &Option<FileSpec>| f.as_ref().map(|f| f.exists && hex_text(&f.content).is_some());
            let want_valid = (c.video.is_some() || c.audio.is_some()) && ok_file(&c.video).unwrap_or(true) && ok_file(&c.audio).unwrap_or(true);
            let verdict = if c.report_file {
                std::fs::read_to_string(format!("{}/report.json", dir)).ok().and_then(|t| serde_json::from_str::<serde_json::Value>(&t).ok()).and_then(|j| j["valid"].as_bool())
            } else if c.json {
                serde_json::from_str::<serde_json::Value>(ran.stdout.trim()).ok().and_then(|j| j["valid"].as_bool())
            } else if ran.stdout.contains("Validation successful") {
                Some(true)
            } else if ran.stdout.contains("Validation failed") {
                Some(false)
            } else {
                None
            };
            match verdict {
                Some(x) if x == want_valid => {}
                _ => out.push(v(
                    format!("validate|verdict|expected-{}", if want_valid { "valid" } else { "invalid" }),
                    format!("{}: verdict {:?}, expected valid={} ; exit {:?} ; output {}", c.brief(), verdict, want_valid, ran.code, both.chars().take(300).collect::<String>()),
                )),
            }
            obs.count("validate_cases", 1);
            obs.nontrivial(crate::util::fnv(format!("{:?}", c).as_bytes()));
        }
        _ => {
            obs.count("info_cases", 1);
            obs.nontrivial(crate::util::fnv(format!("{:?}", c).as_bytes()));
            if c.intent == "valid" {
                let content = &c.info.as_ref().unwrap().content;
                let tree = bmff::parse_tree(content);
                let want: Vec<(String, u64)> = tree.top.iter().map(|b| (b.typ_str(), b.size as u64)).collect();
                let got: Vec<(String, u64)> = if c.json {
                    serde_json::from_str::<serde_json::Value>(ran.stdout.trim())
                        .ok()
                        .and_then(|j| j["boxes"].as_array().cloned())
                        .unwrap_or_default()
                        .iter()
                        .map(|b| (b["type"].as_str().unwrap_or("?").to_string(), b["size"].as_u64().unwrap_or(0)))
                        .collect()
                } else {
                    ran.stdout
                        .lines()
                        .filter_map(|l| {
                            let l = l.strip_prefix("  ")?;
                            let (t, rest) = l.split_once(": ")?;
                            let n = rest.strip_suffix(" bytes")?.parse::<u64>().ok()?;
                            Some((t.to_string(), n))
                        })
                        .collect()
                };
                if ran.code != Some(0) || got != want {
                    out.push(v("info|box-list".into(), format!("{}: info lists {:?}, the file's top-level boxes are {:?} (exit {:?})", c.brief(), got, want, ran.code)));
                }
                obs.count("info_lists_compared", 1);
            }
        }
    }
    let _ = std::fs::remove_dir_all(&dir);
    out
}
