//! Monitors: one per property. Shared pieces: violations, observation accumulators, and the
//! per-execution analysis (ledger of accepted frames + independently parsed output).

use crate::bmff::{self, Movie, Track, Tree};
use crate::exec::Exec;
use crate::hist::*;
use crate::model::basic::{self as mb, Ticks};
use crate::sink::SinkEv;
use crate::util::bf;
use std::collections::{BTreeMap, BTreeSet};

pub mod c01;
pub mod c02;
pub mod c03;
pub mod c04;
pub mod c05;
pub mod c06;
pub mod c07;
pub mod c08;
pub mod c09;
pub mod c10;
pub mod c11;
pub mod c12;
pub mod c13;
pub mod c14;
pub mod c15;
pub mod c16;
pub mod c17;
pub mod c18;
pub mod c19;
pub mod c20;

#[derive(Clone, Debug, PartialEq)]
pub struct Violation {
    pub prop: &'static str,
    /// narrow, stable identification of the failing input class / call site
    pub sig: String,
    pub detail: String,
}

impl Violation {
    pub fn new(prop: &'static str, sig: impl Into<String>, detail: impl Into<String>) -> Self {
        Violation { prop, sig: sig.into(), detail: detail.into() }
    }
}

/// Observation accumulators -> evidence.
#[derive(Clone, Debug, Default)]
pub struct Obs {
    pub evaluations: u64,
    pub counters: BTreeMap<String, u64>,
    pub sets: BTreeMap<String, BTreeSet<String>>,
    pub samples: Vec<String>,
    pub nontrivial: BTreeSet<u64>,
    pub inconclusive: u64,
}

impl Obs {
    pub fn count(&mut self, k: &str, n: u64) {
        *self.counters.entry(k.to_string()).or_insert(0) += n;
    }
    pub fn max(&mut self, k: &str, n: u64) {
        let e = self.counters.entry(k.to_string()).or_insert(0);
        if n > *e {
            *e = n;
        }
    }
    pub fn set(&mut self, k: &str, v: impl Into<String>) {
        let s = self.sets.entry(k.to_string()).or_default();
        if s.len() < 400 {
            s.insert(v.into());
        }
    }
    pub fn sample(&mut self, s: impl Into<String>) {
        if self.samples.len() < 5 {
            self.samples.push(s.into());
        }
    }
    pub fn nontrivial(&mut self, h: u64) {
        self.nontrivial.insert(h);
    }
}

#[derive(Clone, Debug)]
pub struct VFrame {
    pub op: usize,
    pub pts_s: f64,
    pub dts_s: f64,
    pub pts: Ticks,
    pub dts: Ticks,
    /// submitted key flag; None for encode_video (no flag submitted)
    pub key: Option<bool>,
    pub explicit_dts: bool,
}

#[derive(Clone, Debug)]
pub struct AFrame {
    pub op: usize,
    pub pts_s: f64,
    pub pts: Ticks,
}

/// Accepted frames recovered from the event log (calls whose result is Ok), in acceptance order,
/// up to the first successful finish.
#[derive(Clone, Debug, Default)]
pub struct Ledger {
    pub video: Vec<VFrame>,
    pub audio: Vec<AFrame>,
    /// index of the first successful finish op
    pub finish: Option<usize>,
    pub any_huge: bool,
    pub any_ambiguous: bool,
}

pub fn build_ledger(h: &History, ex: &Exec) -> Ledger {
    let mut l = Ledger::default();
    let mut vclock = 0.0f64;
    let mut aclock = 0.0f64;
    let rate = h.cfg.audio_effective().map(|a| a.rate).unwrap_or(0);
    for (i, (op, res)) in h.ops.iter().zip(ex.results.iter()).enumerate() {
        if l.finish.is_some() {
            break;
        }
        let ok = res.is_ok();
        match op {
            Op::WriteVideo { pts, key, .. } if ok => {
                let p = bf(*pts);
                l.video.push(VFrame { op: i, pts_s: p, dts_s: p, pts: mb::ticks(p), dts: mb::ticks(p), key: Some(*key), explicit_dts: false });
            }
            Op::WriteVideoDts { pts, dts, key, .. } if ok => {
                let (p, d) = (bf(*pts), bf(*dts));
                l.video.push(VFrame { op: i, pts_s: p, dts_s: d, pts: mb::ticks(p), dts: mb::ticks(d), key: Some(*key), explicit_dts: true });
            }
            Op::WriteAudio { pts, .. } if ok => {
                let p = bf(*pts);
                l.audio.push(AFrame { op: i, pts_s: p, pts: mb::ticks(p) });
            }
            Op::EncodeVideo { dur_ms, .. } => {
                if ok {
                    l.video.push(VFrame { op: i, pts_s: vclock, dts_s: vclock, pts: mb::ticks(vclock), dts: mb::ticks(vclock), key: None, explicit_dts: false });
                    vclock += *dur_ms as f64 / 1000.0;
                }
            }
            Op::EncodeAudio { samples, .. } => {
                if ok {
                    l.audio.push(AFrame { op: i, pts_s: aclock, pts: mb::ticks(aclock) });
                    aclock += *samples as f64 / rate as f64;
                }
            }
            Op::Finish(_) if ok => l.finish = Some(i),
            _ => {}
        }
    }
    for v in &l.video {
        l.any_huge |= v.pts.is_huge() || v.dts.is_huge();
        l.any_ambiguous |= v.pts.is_ambiguous() || v.dts.is_ambiguous();
    }
    for a in &l.audio {
        l.any_huge |= a.pts.is_huge();
        l.any_ambiguous |= a.pts.is_ambiguous();
    }
    l
}

impl Ledger {
    /// true when presentation order differs from decode order somewhere
    pub fn reordered(&self) -> bool {
        // judged on the submitted seconds (works for timestamps beyond 2^53 ticks too)
        self.video.windows(2).any(|w| w[1].pts_s < w[0].pts_s)
    }
    pub fn any_cts(&self) -> bool {
        // (beyond 2^53 ticks the model value is the same "Huge" for both: compare what was submitted)
        self.video.iter().any(|v| if v.pts.is_huge() || v.dts.is_huge() { v.pts_s != v.dts_s } else { v.pts != v.dts })
    }
}

/// Expected stored payload of an accepted frame.
pub fn expected_video_payload(codec: u8, data: &[u8]) -> Vec<u8> {
    match codec {
        H264 | H265 => mb::to_length_prefixed(data),
        _ => data.to_vec(),
    }
}

pub fn expected_audio_payload(a: &AudioCfg, data: &[u8]) -> Vec<u8> {
    if a.is_aac() {
        match mb::adts(data) {
            mb::Adts::Valid { payload, .. } => payload.to_vec(),
            mb::Adts::EmptyPayload { .. } => Vec::new(),
            // accepted although the model calls it invalid: C04's business; best effort slice
            mb::Adts::Invalid(_) => Vec::new(),
        }
    } else {
        data.to_vec()
    }
}

/// Everything a monitor needs about one finished execution.
pub struct Analysis<'a> {
    pub h: &'a History,
    pub ex: &'a Exec,
    pub bytes: &'a [u8],
    pub events: &'a [SinkEv],
    pub ledger: Ledger,
    pub tree: Tree,
    pub movie: Movie,
}

impl<'a> Analysis<'a> {
    pub fn new(h: &'a History, ex: &'a Exec, bytes: &'a [u8], events: &'a [SinkEv]) -> Self {
        let ledger = build_ledger(h, ex);
        let tree = bmff::parse_tree(bytes);
        let movie = bmff::parse_movie(bytes, &tree);
        Analysis { h, ex, bytes, events, ledger, tree, movie }
    }
    pub fn finished_ok(&self) -> bool {
        self.ledger.finish.is_some()
    }
    pub fn video_track(&self) -> Option<&Track> {
        self.movie.tracks.iter().find(|t| &t.handler == b"vide")
    }
    pub fn audio_track(&self) -> Option<&Track> {
        self.movie.tracks.iter().find(|t| &t.handler == b"soun")
    }
    pub fn sample_bytes(&self, s: &bmff::Sample) -> Option<&[u8]> {
        let a = s.offset as usize;
        let b = a.checked_add(s.size as usize)?;
        self.bytes.get(a..b)
    }
    /// a short tag describing the shape of the history (used inside signatures)
    pub fn shape(&self) -> String {
        format!(
            "reorder={} audio={}",
            self.ledger.reordered() as u8,
            (self.h.cfg.audio_effective().is_some()) as u8
        )
    }
}

pub fn codec_name(c: u8) -> &'static str {
    match c {
        H264 => "h264",
        H265 => "h265",
        AV1 => "av1",
        _ => "vp9",
    }
}
