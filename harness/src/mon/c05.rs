//! C05 — rejected calls leave no trace.
//! (a) online: hook H1 state snapshot equal before/after every rejected frame-writing call;
//! (b) differential at the boundary: H versus H with the rejected frame-writing calls deleted.

use super::*;
use crate::exec::{run, ExecOpts};

fn v(sig: String, detail: String) -> Violation {
    Violation::new("C05", sig, detail)
}

fn changed_keys(a: &str, b: &str) -> Vec<String> {
    let ta: Vec<&str> = a.split(' ').collect();
    let tb: Vec<&str> = b.split(' ').collect();
    let mut out = Vec::new();
    for (x, y) in ta.iter().zip(tb.iter()) {
        if x != y {
            let k = x.split('=').next().unwrap_or(x).trim_start_matches(|c: char| !c.is_ascii_alphabetic() && c != '_');
            out.push(k.to_string());
        }
    }
    if ta.len() != tb.len() {
        out.push("<shape>".into());
    }
    out
}

/// (a) snapshot equality. `ex` must have been run with snapshots enabled.
pub fn check_snapshots(h: &History, ex: &Exec, obs: &mut Obs) -> Vec<Violation> {
    let mut out = Vec::new();
    if ex.snaps.len() != h.ops.len() + 1 {
        return out;
    }
    for (i, (op, res)) in h.ops.iter().zip(ex.results.iter()).enumerate() {
        if !op.is_frame_write() {
            continue;
        }
        let Res::Err(e) = res else { continue };
        let (Some(before), Some(after)) = (&ex.snaps[i], &ex.snaps[i + 1]) else { continue };
        obs.count("rejected_calls_snapshotted", 1);
        obs.set("rejection_classes", format!("{}:{:?}", op.name(), e.class));
        if before != after {
            let keys = changed_keys(before, after);
            out.push(v(
                format!("state-changed|{}|{:?}|{}", op.name(), e.class, keys.join("+")),
                format!("call #{} {} was rejected with {} but changed muxer state: fields {:?}\n before: {}\n after:  {}", i, op.brief(), e.variant, keys, trunc(before), trunc(after)),
            ));
            break;
        }
    }
    out
}

fn trunc(s: &str) -> String {
    if s.len() > 400 {
        format!("{}...", &s[..400])
    } else {
        s.to_string()
    }
}

/// (b) differential. Returns violations; `ex`/`bytes` are the observed run of `h`.
pub fn check_differential(h: &History, ex: &Exec, bytes: &[u8], obs: &mut Obs) -> Vec<Violation> {
    let mut out = Vec::new();
    if ex.any_panic() {
        return out;
    }
    let mut keep: Vec<usize> = Vec::new();
    let mut removed: Vec<usize> = Vec::new();
    for (i, (op, res)) in h.ops.iter().zip(ex.results.iter()).enumerate() {
        if op.is_frame_write() && res.is_err() {
            removed.push(i);
        } else {
            keep.push(i);
        }
    }
    if removed.is_empty() {
        return out;
    }
    let h2 = History { cfg: h.cfg.clone(), ops: keep.iter().map(|&i| h.ops[i].clone()).collect() };
    let (ex2, sink2) = run(&h2, &ExecOpts::default());
    obs.count("differential_pairs", 1);
    obs.count("rejected_calls_removed", removed.len() as u64);
    for (k, &i) in keep.iter().enumerate() {
        let (r1, r2) = (&ex.results[i], &ex2.results[k]);
        if r1 != r2 {
            let first_removed_before = removed.iter().filter(|&&r| r < i).count();
            let culprit = removed.iter().rev().find(|&&r| r < i).map(|&r| (h.ops[r].name(), ex.results[r].err().map(|e| e.class)));
            out.push(v(
                format!(
                    "later-result-differs|{}|after rejected {}",
                    h.ops[i].name(),
                    culprit.map(|(n, c)| format!("{} {:?}", n, c.unwrap_or(ErrClass::Other))).unwrap_or_else(|| "?".into())
                ),
                format!(
                    "call #{} {}: with the rejected calls present -> {} ; with them removed -> {} ({} rejected calls precede it)",
                    i,
                    h.ops[i].brief(),
                    r1.brief(),
                    r2.brief(),
                    first_removed_before
                ),
            ));
            return out;
        }
    }
    let b2 = sink2.bytes();
    if b2 != bytes {
        let pos = b2.iter().zip(bytes.iter()).position(|(a, b)| a != b).unwrap_or(b2.len().min(bytes.len()));
        let culprit = removed.first().map(|&r| (h.ops[r].name(), ex.results[r].err().map(|e| e.class)));
        out.push(v(
            format!("file-differs|after rejected {}", culprit.map(|(n, c)| format!("{} {:?}", n, c.unwrap_or(ErrClass::Other))).unwrap_or_else(|| "?".into())),
            format!("finished file differs from the file of the same history without its {} rejected calls: first difference at byte {} (sizes {} vs {})", removed.len(), pos, bytes.len(), b2.len()),
        ));
    }
    out
}
