//! C11 — fragmented segments carry a consistent timeline and a stable init segment.

use super::*;
use crate::exec::FExec;

fn v(sig: String, detail: String) -> Violation {
    Violation::new("C11", sig, detail)
}

pub fn check(h: &FHistory, ex: &FExec, obs: &mut Obs) -> Vec<Violation> {
    let mut out = Vec::new();
    if !matches!(ex.build, Res::Ok) {
        return out;
    }
    let mut queue: Vec<(u64, u64, bool)> = Vec::new();
    let mut all_dts: Vec<u64> = Vec::new();
    // per emitted segment: (base, first dts, sum of durations but last, n samples)
    let mut segs: Vec<(u64, u64, u64, usize)> = Vec::new();
    let mut init: Option<&Vec<u8>> = None;
    // "A stable init segment" is a function of the configuration alone: whatever moment of the
    // history it is first asked for (nothing written yet, samples queued, after a flush), it must
    // be the one an identically configured muxer gives before its first write.
    if h.ops.iter().any(|o| matches!(o, FOp::Init)) {
        if let Ok(Ok(mut fresh)) = crate::exec::build_frag(&h.cfg) {
            if let Ok(reference) = crate::exec::guard(|| fresh.init_segment()) {
                for (i, (op, res)) in h.ops.iter().zip(ex.results.iter()).enumerate() {
                    if let (FOp::Init, FRes::Bytes(b)) = (op, res) {
                        if *b != reference {
                            out.push(v(
                                "init-segment-depends-on-history".into(),
                                format!("op #{}: init segment ({} bytes) differs from the one an identically configured muxer gives before any write ({} bytes)", i, b.len(), reference.len()),
                            ));
                            break;
                        }
                        obs.count("init_requests_equal_to_fresh_muxer", 1);
                    }
                }
            }
        }
    }
    for (i, (op, res)) in h.ops.iter().zip(ex.results.iter()).enumerate() {
        match (op, res) {
            (FOp::Write { pts, dts, sync, .. }, FRes::Ok) => {
                queue.push((*pts, *dts, *sync));
                all_dts.push(*dts);
            }
            (FOp::Init, FRes::Bytes(b)) => {
                match init {
                    None => init = Some(b),
                    Some(first) => {
                        if first != b {
                            out.push(v("init-segment-changed".into(), format!("op #{}: init segment differs from the first one requested ({} vs {} bytes)", i, b.len(), first.len())));
                        }
                    }
                }
                obs.count("init_requests", 1);
            }
            (FOp::Flush, FRes::Seg(Some(bytes))) => {
                let tree = bmff::parse_tree(bytes);
                let frag = bmff::parse_fragment(bytes, &tree, None);
                let n = queue.len();
                if n == 0 {
                    queue.clear();
                    continue;
                }
                if frag.samples.len() != n {
                    // a segment that does not describe exactly the accepted writes cannot have
                    // "consecutive decode-time differences equal to the submitted ones"
                    out.push(v("segment-sample-count".into(), format!("op #{}: segment describes {} samples, {} writes were accepted since the last flush", i, frag.samples.len(), n)));
                    queue.clear();
                    continue;
                }
                let oversize = queue.windows(2).any(|w| w[1].1 - w[0].1 > u32::MAX as u64)
                    || queue.iter().any(|q| (q.0 as i128 - q.1 as i128).abs() > i32::MAX as i128);
                if oversize {
                    obs.count("segments_delegated_to_C16", 1);
                } else {
                    for k in 0..n {
                        let fs = &frag.samples[k];
                        if k + 1 < n {
                            let want = queue[k + 1].1 - queue[k].1;
                            if fs.dur as u64 != want {
                                out.push(v("sample-duration".into(), format!("op #{}: sample {} duration {} but next dts - dts = {}", i, k + 1, fs.dur, want)));
                                break;
                            }
                        }
                        let want_cts = queue[k].0 as i64 - queue[k].1 as i64;
                        if fs.cts_off != want_cts {
                            out.push(v("composition-offset".into(), format!("op #{}: sample {} composition offset {} but pts - dts = {}", i, k + 1, fs.cts_off, want_cts)));
                            break;
                        }
                        let non_sync = fs.flags & 0x0001_0000 != 0;
                        if non_sync == queue[k].2 {
                            out.push(v("sync-flag".into(), format!("op #{}: sample {} non-sync bit {} but submitted sync {}", i, k + 1, non_sync, queue[k].2)));
                            break;
                        }
                    }
                    obs.count("trun_samples_checked", n as u64);
                }
                match frag.base_decode_time {
                    None => out.push(v("no-tfdt".into(), format!("op #{}: segment without decodable tfdt", i))),
                    Some(base) => {
                        if let Some(&(pb, _pf, psum, _pn)) = segs.last() {
                            if base < pb {
                                out.push(v("base-moves-backwards".into(), format!("op #{}: base decode time {} after {}", i, base, pb)));
                            } else if base < pb + psum {
                                out.push(v(
                                    "base-before-previous-last-sample".into(),
                                    format!("op #{}: base decode time {} is earlier than the decode time {} of the previous segment's last sample (previous base {} + {} )", i, base, pb + psum, pb, psum),
                                ));
                            }
                        }
                        let sum_but_last: u64 = frag.samples[..n - 1].iter().map(|s| s.dur as u64).sum();
                        segs.push((base, queue[0].1, sum_but_last, n));
                    }
                }
                queue.clear();
                obs.count("segments_checked", 1);
            }
            (FOp::Flush, FRes::Seg(None)) => {}
            _ => {}
        }
        if !out.is_empty() {
            return out;
        }
    }
    // constant-interval clause
    let constant = all_dts.len() >= 3 && all_dts.windows(2).all(|w| w[1] >= w[0] && w[1] - w[0] == all_dts[1] - all_dts[0]);
    if constant && segs.len() >= 2 && segs.iter().all(|s| s.3 >= 2) {
        let c0 = segs[0].0 as i128 - segs[0].1 as i128;
        for (k, s) in segs.iter().enumerate() {
            let c = s.0 as i128 - s.1 as i128;
            if c != c0 {
                let nonzero_start = segs[0].1 != 0;
                out.push(v(
                    format!("constant-interval|base-minus-first-dts-not-constant|first-dts-{}", if nonzero_start { "nonzero" } else { "zero" }),
                    format!("constant frame interval {}: segment 1 has base {} for first dts {}, segment {} has base {} for first dts {}", all_dts[1] - all_dts[0], segs[0].0, segs[0].1, k + 1, s.0, s.1),
                ));
                break;
            }
        }
        obs.count("constant_interval_histories", 1);
        if segs[0].1 != 0 {
            obs.count("constant_interval_nonzero_start", 1);
        }
    }
    out
}
