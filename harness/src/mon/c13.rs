//! C13 monitor (filled in below)
