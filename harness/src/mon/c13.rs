//! C13 — sink failures and partial writes never corrupt, duplicate or hide data.

use super::*;
use crate::exec::{run_fault, ExecOpts};
use crate::sink::{Fault, KINDS};

fn v(sig: String, detail: String) -> Violation {
    Violation::new("C13", sig, detail)
}

pub struct Reference {
    pub bytes: Vec<u8>,
    pub writes: usize,
    pub finish_idx: usize,
    pub finish_res: Res,
    /// (offset, len) of every write call of the fault-free run
    pub write_spans: Vec<(u64, usize)>,
}

pub fn reference(h: &History) -> Option<Reference> {
    let (ex, sink) = run_fault(h, &ExecOpts::default(), Fault::None);
    let finish_idx = h.ops.iter().position(|o| o.is_finish())?;
    if !ex.results[finish_idx].is_ok() {
        return None;
    }
    let (bytes, spans) = sink.with(|s| (s.bytes.clone(), s.events.iter().map(|e| (e.at, e.offered)).collect::<Vec<_>>()));
    Some(Reference { writes: spans.len(), bytes, finish_idx, finish_res: ex.results[finish_idx].clone(), write_spans: spans })
}

fn fault_name(f: &Fault) -> &'static str {
    match f {
        Fault::None => "none",
        Fault::FailWrite { .. } => "fail-write",
        Fault::AcceptThenFail { .. } => "accept-n-then-fail",
        Fault::AcceptThenFailOnce { .. } => "accept-n-fail-once-recover",
        Fault::ZeroAt { .. } => "ok-zero",
        Fault::Schedule { .. } => "short+interrupted",
        Fault::OneByte => "one-byte",
    }
}

/// Run `h` under `fault` and judge it against the fault-free reference.
pub fn check_one(h: &History, fault: &Fault, r: &Reference, obs: &mut Obs) -> Vec<Violation> {
    let mut out = Vec::new();
    // the caller keeps trying after the first finish: once in place, once through the consuming
    // flush alias (every attempt after a failure must report the failure and write nothing)
    let mut h2 = h.clone();
    h2.ops.push(Op::Finish(FinishKind::InPlace));
    h2.ops.push(Op::Finish(FinishKind::Flush));
    let h = &h2;
    let (ex, sink) = run_fault(h, &ExecOpts::default(), fault.clone());
    let fname = fault_name(fault);
    if let Some((i, Res::Panic { msg, loc })) = ex.first_panic() {
        out.push(v(format!("panic-under-fault|{}|{}", fname, h.ops[i].name()), format!("call #{} panicked at {}: {} under {:?}", i, loc, msg, fault)));
        return out;
    }
    let (bytes, events, fatal) = sink.with(|s| (s.bytes.clone(), s.events.clone(), s.fatal_delivered));
    let fr = &ex.results[r.finish_idx];
    // Err <=> a fatal result was delivered
    match (fr, fatal) {
        (Res::Err(e), true) => {
            if e.class != ErrClass::Io {
                out.push(v(format!("finish-error-not-io|{}", fname), format!("finish failed with {} under {:?}", e.variant, fault)));
            }
        }
        (Res::Ok, false) | (Res::OkStats(_), false) => {}
        (Res::Err(e), false) => out.push(v(format!("finish-err-without-failure|{}", fname), format!("finish returned {} ({}) although the sink never failed ({:?})", e.variant, e.detail, fault))),
        (Res::Panic { .. }, _) | (Res::Skipped, _) => {}
        (_, true) => out.push(v(format!("finish-ok-despite-failure|{}", fname), format!("finish returned {} although the sink delivered a fatal result ({:?})", fr.brief(), fault))),
    }
    if fatal && matches!(fr, Res::Err(_)) {
        for (i, res) in ex.results.iter().enumerate().skip(r.finish_idx + 1) {
            if res.is_ok() && h.ops[i].is_finish() {
                out.push(v(
                    format!("later-finish-reports-success-after-failure|{}|{}", fname, h.ops[i].brief().trim()),
                    format!("finish #{} failed on the sink error, but the later attempt #{} ({}) returned Ok although the sink holds an incomplete file ({:?})", r.finish_idx, i, h.ops[i].brief(), fault),
                ));
                break;
            }
        }
    }
    // accepted bytes are a prefix of the fault-free file
    if bytes.len() > r.bytes.len() || bytes[..] != r.bytes[..bytes.len()] {
        let pos = bytes.iter().zip(r.bytes.iter()).position(|(a, b)| a != b).unwrap_or(r.bytes.len().min(bytes.len()));
        out.push(v(format!("not-a-prefix|{}", fname), format!("sink holds {} bytes that are not a prefix of the {}-byte fault-free file (first difference at {}) under {:?}", bytes.len(), r.bytes.len(), pos, fault)));
    }
    // after the first fatal event nothing further is offered to the sink
    if let Some(pos) = events.iter().position(|e| matches!(e.res, Err(k) if k != usize::MAX) || (e.res == Ok(0) && e.offered > 0)) {
        if let Some(later) = events.get(pos + 1) {
            out.push(v(
                format!("write-after-failure|{}|{}", fname, h.ops.get(later.seq as usize).map(|o| o.name()).unwrap_or("?")),
                format!("after the failure (event {}), call #{} offered another {} bytes to the sink under {:?}", pos, later.seq, later.offered, fault),
            ));
        }
        obs.count("faults_after_first_accepted_byte", (events[pos].at > 0) as u64);
    }
    if !fatal {
        if bytes != r.bytes {
            out.push(v(format!("non-fatal-schedule-changes-bytes|{}", fname), format!("delivered {} bytes != fault-free {} bytes under {:?}", bytes.len(), r.bytes.len(), fault)));
        }
        if *fr != r.finish_res {
            out.push(v(format!("non-fatal-schedule-changes-stats|{}", fname), format!("finish returned {} but fault-free run returned {} under {:?}", fr.brief(), r.finish_res.brief(), fault)));
        }
        obs.count("non_fatal_schedules", 1);
        obs.count("interrupted_results_injected", events.iter().filter(|e| e.res == Err(usize::MAX)).count() as u64);
        obs.count("short_writes_injected", events.iter().filter(|e| matches!(e.res, Ok(n) if n < e.offered)).count() as u64);
    }
    obs.evaluations += 1;
    obs.nontrivial(crate::util::mix(h.hash(), crate::util::fnv(format!("{:?}", fault).as_bytes())));
    out
}

/// Enumerate all fault points of one history. level 0 = quick, 1 = thorough.
pub fn check_all(h: &History, level: u8, obs: &mut Obs) -> Vec<(Violation, Fault)> {
    let mut out: Vec<(Violation, Fault)> = Vec::new();
    let Some(r) = reference(h) else {
        obs.inconclusive += 1;
        return out;
    };
    obs.count("histories", 1);
    obs.count("reference_bytes", r.bytes.len() as u64);
    obs.count("write_calls_in_reference", r.writes as u64);
    let mut push = |vs: Vec<Violation>, f: &Fault, out: &mut Vec<(Violation, Fault)>| {
        for x in vs {
            if !out.iter().any(|(y, _)| y.sig == x.sig) {
                out.push((x, f.clone()));
            }
        }
    };
    // (i) every write call x ErrorKind
    // very long recordings (many thousand samples = many thousand write calls): a thin slice
    // around the first calls, the last calls and a few non-fatal schedules
    let big = r.bytes.len() > (1 << 20);
    if r.writes > 3000 || big {
        let mut ks: Vec<usize> = vec![0, 1, 2, 3, r.writes / 2, r.writes - 2, r.writes - 1];
        ks.dedup();
        for k in ks {
            for kind in [0usize, 6] {
                let f = Fault::FailWrite { k, kind };
                push(check_one(h, &f, &r, obs), &f, &mut out);
                obs.count("fault_points:fail-write(call x kind)", 1);
            }
            let f = Fault::ZeroAt { k };
            push(check_one(h, &f, &r, obs), &f, &mut out);
        }
        for s in 0..8u64 {
            let chunk = if big { [1usize << 22, 1 << 20, 1 << 16, 4096][s as usize % 4] } else { [1usize << 16, 4096, 64, 7][s as usize % 4] };
            let f = Fault::Schedule { seed: crate::util::mix(h.hash(), s), max_chunk: chunk, interrupt_pct: [40u8, 10][s as usize % 2] };
            push(check_one(h, &f, &r, obs), &f, &mut out);
            obs.count("fault_points:schedules", 1);
        }
        obs.count(if big { "histories_with_buffers_beyond_1MiB" } else { "long_histories" }, 1);
        return out;
    }
    // under Miri (VH_SMALL) one faulted run costs about a second: a thin but complete slice
    // (every write call, ~40 byte offsets incl. all buffer boundaries of the first writes)
    let small = std::env::var("VH_SMALL").is_ok();
    let kinds: Vec<usize> = if small { vec![0, 6] } else if level == 0 { vec![0, 1, 3, 6, 17] } else { (0..KINDS.len()).collect() };
    for k in 0..r.writes {
        for &kind in &kinds {
            let f = Fault::FailWrite { k, kind };
            let vs = check_one(h, &f, &r, obs);
            push(vs, &f, &mut out);
            obs.count("fault_points:fail-write(call x kind)", 1);
        }
    }
    // (ii) every byte offset (all for small files; boundaries +-1 and a stride otherwise)
    let n = r.bytes.len() as u64;
    let limit = if level == 0 { 4096 } else { 16_384 };
    let mut offsets: Vec<u64> = Vec::new();
    if small {
        for &(at, len) in r.write_spans.iter().take(6) {
            offsets.extend([at, at + 1, at + len as u64].into_iter().filter(|&o| o <= n));
        }
        offsets.extend((0..=n).step_by((n / 24).max(1) as usize));
        offsets.sort();
        offsets.dedup();
    } else if n <= limit {
        offsets.extend(0..=n);
        obs.count("histories_with_every_byte_offset", 1);
    } else {
        for &(at, len) in &r.write_spans {
            for d in [-1i64, 0, 1] {
                for base in [at as i64, at as i64 + len as i64] {
                    let o = base + d;
                    if o >= 0 && o as u64 <= n {
                        offsets.push(o as u64);
                    }
                }
            }
        }
        let stride = (n / 512).max(1);
        offsets.extend((0..=n).step_by(stride as usize));
        offsets.sort();
        offsets.dedup();
    }
    for (i, &o) in offsets.iter().enumerate() {
        let f = Fault::AcceptThenFail { n: o, kind: i % KINDS.len() };
        let vs = check_one(h, &f, &r, obs);
        push(vs, &f, &mut out);
        obs.count("fault_points:byte-offset", 1);
        if i % 3 == 0 && !small {
            // the same offset on a sink that fails one call and then recovers (back-pressure
            // style kinds included): what it holds must stay a prefix, nothing may be re-sent
            let f = Fault::AcceptThenFailOnce { n: o, kind: [6usize, 5, 0][(i / 3) % 3] };
            let vs = check_one(h, &f, &r, obs);
            push(vs, &f, &mut out);
            obs.count("fault_points:byte-offset-then-recover", 1);
        }
    }
    // (iii) Ok(0) at every call
    for k in 0..r.writes {
        let f = Fault::ZeroAt { k };
        let vs = check_one(h, &f, &r, obs);
        push(vs, &f, &mut out);
        obs.count("fault_points:ok-zero", 1);
    }
    // (iv) random short-write / Interrupted schedules, never fatal
    let scheds = if small { 4 } else if level == 0 { 40 } else { 400 };
    for s in 0..scheds {
        let f = Fault::Schedule { seed: crate::util::mix(h.hash(), s), max_chunk: [1usize, 2, 7, 64, 4096][s as usize % 5], interrupt_pct: [0u8, 10, 40][s as usize % 3] };
        let vs = check_one(h, &f, &r, obs);
        push(vs, &f, &mut out);
        obs.count("fault_points:schedules", 1);
    }
    if !small {
        let f = Fault::OneByte;
        let vs = check_one(h, &f, &r, obs);
        push(vs, &f, &mut out);
    }
    out
}
