//! C15 — audio and video samples are interleaved in timestamp order in the media data.

use super::*;

fn v(sig: String, detail: String) -> Violation {
    Violation::new("C15", sig, detail)
}

pub fn check(a: &Analysis, obs: &mut Obs) -> Vec<Violation> {
    let mut out = Vec::new();
    if !a.finished_ok() {
        return out;
    }
    // Beyond 2^53 ticks the exact-rational model gives up ("Huge"); there the timestamp of a
    // sample is the correctly rounded product seconds x 90000 (an integer-valued double), which
    // is what "timestamp order" can only mean on that grid.
    let bounds = |t: &crate::model::basic::Ticks, secs: f64| -> Option<(u64, u64)> {
        match (t.lo(), t.hi()) {
            (Some(l), Some(h)) => Some((l, h)),
            _ => {
                let x = (secs * 90_000.0).round();
                if x.is_finite() && x >= 0.0 && x < 18_446_744_073_709_551_615.0 {
                    Some((x as u64, x as u64))
                } else {
                    None
                }
            }
        }
    };
    if a.ledger.any_huge {
        obs.count("histories_beyond_2^53_ticks", 1);
    }
    let (Some(vt), Some(at)) = (a.video_track(), a.audio_track()) else {
        return out;
    };
    if vt.samples.len() != a.ledger.video.len() || at.samples.len() != a.ledger.audio.len() {
        return out; // C01's business
    }
    let shape = a.shape();
    // "Stored" means the bytes: the position the tables give for a sample says where it is stored
    // only if that sample's bytes are there. (A writer that computes the merge order for the
    // tables but streams the payloads in another order keeps every offset comparison below
    // happy.) C01's resolver decides that; any sample of either track that is not at its table
    // position means the storage order is not the one the tables describe.
    {
        let mut scratch = Obs::default();
        let c1 = super::c01::check(a, &mut scratch);
        if let Some(x) = c1.iter().find(|x| x.sig.contains("sample-bytes") || x.sig.contains("sample-size") || x.sig.contains("sample-out-of-file") || x.sig.starts_with("cover")) {
            out.push(v(
                format!("stored-elsewhere|{}", x.sig),
                format!("the media data does not hold the samples where the tables place them, so the tables' order is not the storage order: {}", x.detail),
            ));
            return out;
        }
        obs.count("histories_with_every_sample_at_its_table_position", 1);
    }
    // clause 1: each track's samples are stored in sample order
    for (name, t) in [("video", vt), ("audio", at)] {
        for (i, w) in t.samples.windows(2).enumerate() {
            if w[0].offset + w[0].size as u64 > w[1].offset {
                out.push(v(
                    format!("{}|track-order|{}", name, shape),
                    format!("{} sample {} stored at {}+{} but sample {} at {}", name, i + 1, w[0].offset, w[0].size, i + 2, w[1].offset),
                ));
                break;
            }
        }
    }
    obs.count("track_order_checked", 1);
    // clause 2: overall order = merge by timestamp, video first on ties (non-reordered streams)
    if a.ledger.reordered() || a.ledger.any_cts() {
        obs.count("merge_clause_skipped_reordered", 1);
        return out;
    }
    // (offset, lo, hi, kind(0 video,1 audio), index)
    let mut all: Vec<(u64, u64, u64, u8, usize)> = Vec::new();
    for (i, (s, f)) in vt.samples.iter().zip(a.ledger.video.iter()).enumerate() {
        if s.size > 0 {
            let Some((lo, hi)) = bounds(&f.pts, f.pts_s) else { return out };
            all.push((s.offset, lo, hi, 0, i));
        }
    }
    for (i, (s, f)) in at.samples.iter().zip(a.ledger.audio.iter()).enumerate() {
        if s.size > 0 {
            let Some((lo, hi)) = bounds(&f.pts, f.pts_s) else { return out };
            all.push((s.offset, lo, hi, 1, i));
        }
    }
    all.sort();
    for w in all.windows(2) {
        let (p, n) = (&w[0], &w[1]);
        let bad = if p.1 > n.2 {
            true // strictly later timestamp stored first
        } else if p.1 == p.2 && n.1 == n.2 && p.1 == n.1 {
            // exactly equal timestamps: video before audio, then by index
            (p.3, p.4) > (n.3, n.4)
        } else {
            false
        };
        if bad {
            let nm = |k: u8| if k == 0 { "video" } else { "audio" };
            out.push(v(
                format!("merge-order|{}-before-{}|{}", nm(p.3), nm(n.3), shape),
                format!(
                    "{} sample {} (t={} ticks) is stored at {} before {} sample {} (t={} ticks) at {}",
                    nm(p.3),
                    p.4 + 1,
                    p.1,
                    p.0,
                    nm(n.3),
                    n.4 + 1,
                    n.1,
                    n.0
                ),
            ));
            break;
        }
    }
    obs.count("merge_order_checked", 1);
    obs.count("samples_walked", all.len() as u64);
    if all.windows(2).any(|w| w[0].1 == w[1].1 && w[0].3 != w[1].3) {
        obs.count("histories_with_cross_track_ties", 1);
    }
    out
}
