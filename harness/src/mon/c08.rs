//! C08 — fast-start changes only the layout; both layouts address samples correctly.

use super::*;

fn v(sig: String, detail: String) -> Violation {
    Violation::new("C08", sig, detail)
}

/// Layout-independent description of a parsed file.
pub fn normalised(a: &Analysis) -> Vec<String> {
    let mut d = Vec::new();
    d.push(format!("mvhd {:?}", a.movie.mvhd));
    d.push(format!("ilst {:?}", a.movie.ilst));
    d.push(format!("udta {}", a.movie.has_udta));
    for t in &a.movie.tracks {
        d.push(format!("track {} handler {} mdhd {:?}", t.track_id, bmff::fourcc(&t.handler), t.mdhd));
        d.push(format!("entry {}", crate::util::hex(&t.entry)));
        d.push(format!("stts {:?}", t.stts));
        d.push(format!("ctts {:?}", t.ctts));
        d.push(format!("stss {:?}", t.stss));
        d.push(format!("elst {:?}", t.elst));
        d.push(format!("sizes {:?}", t.sizes));
        let mut hh = 0xcbf2_9ce4_8422_2325u64;
        let mut resolved = 0usize;
        for s in &t.samples {
            if let Some(b) = a.sample_bytes(s) {
                hh = hh.rotate_left(5) ^ crate::util::fnv(b);
                resolved += 1;
            }
        }
        d.push(format!("samples {} resolved {} hash {:x}", t.samples.len(), resolved, hh));
        let flags: Vec<(u64, u32, i64, bool)> = t.samples.iter().map(|s| (s.dts, s.dur, s.cts_off, s.sync)).collect();
        d.push(format!("timing {:x}", crate::util::fnv(format!("{:?}", flags).as_bytes())));
    }
    d
}

pub fn check(fast: &Analysis, slow: &Analysis, obs: &mut Obs) -> Vec<Violation> {
    let mut out = Vec::new();
    // identical results per call
    // the byte count may legitimately differ (e.g. an empty mdat box in one layout only)
    let mask = |r: &Res| match r {
        Res::OkStats(s) => Res::OkStats(Stats { bytes_written: 0, ..s.clone() }),
        other => other.clone(),
    };
    for (i, (r1, r2)) in fast.ex.results.iter().zip(slow.ex.results.iter()).enumerate() {
        if mask(r1) != mask(r2) {
            out.push(v(
                format!("results-differ|{}", fast.h.ops[i].name()),
                format!("call #{} {}: fast-start run -> {} ; standard run -> {}", i, fast.h.ops[i].brief(), r1.brief(), r2.brief()),
            ));
            return out;
        }
    }
    if !fast.finished_ok() || !slow.finished_ok() {
        return out;
    }
    // top-level order
    let tf = fast.tree.top_types();
    let ts = slow.tree.top_types();
    let has_mdat = tf.iter().any(|t| t == "mdat");
    let want_f: Vec<&str> = if has_mdat { vec!["ftyp", "moov", "mdat"] } else { vec!["ftyp", "moov"] };
    let has_mdat_s = ts.iter().any(|t| t == "mdat");
    let want_s: Vec<&str> = if has_mdat_s { vec!["ftyp", "mdat", "moov"] } else { vec!["ftyp", "moov"] };
    if tf != want_f {
        out.push(v("layout|fast-start-order".into(), format!("fast-start file top-level boxes {:?}", tf)));
    }
    if ts != want_s {
        out.push(v("layout|standard-order".into(), format!("standard file top-level boxes {:?}", ts)));
    }
    if has_mdat != has_mdat_s {
        // an empty mdat box may be present in one layout only (no samples to address)
        let payload = fast.movie.mdat.map(|m| m.1).unwrap_or(0) + slow.movie.mdat.map(|m| m.1).unwrap_or(0);
        if payload != 0 {
            out.push(v("layout|mdat-presence-differs".into(), format!("{:?} vs {:?}", tf, ts)));
        }
    }
    // both layouts address samples correctly (C01's resolver on both)
    let mut scratch = Obs::default();
    let c1 = super::c01::check(fast, &mut scratch);
    let c2 = super::c01::check(slow, &mut scratch);
    let s1: std::collections::BTreeSet<&String> = c1.iter().map(|x| &x.sig).collect();
    let s2: std::collections::BTreeSet<&String> = c2.iter().map(|x| &x.sig).collect();
    if s1 != s2 {
        let only_f: Vec<_> = s1.difference(&s2).collect();
        let only_s: Vec<_> = s2.difference(&s1).collect();
        out.push(v(
            format!("addressing|one-layout-only|fast:{:?}|standard:{:?}", only_f, only_s),
            format!("sample resolution differs between layouts: fast-start {:?} ; standard {:?}", c1.first().map(|x| &x.detail), c2.first().map(|x| &x.detail)),
        ));
    } else if !s1.is_empty() {
        // "in both layouts every chunk offset is ... correct for that layout"
        out.push(v(
            format!("addressing|both-layouts|{:?}", s1),
            format!("samples do not resolve in either layout: fast-start {:?} ; standard {:?}", c1.first().map(|x| &x.detail), c2.first().map(|x| &x.detail)),
        ));
    } else {
        obs.count("pairs_resolving_in_both_layouts", 1);
    }
    // identical description apart from offsets / box order
    let n1 = normalised(fast);
    let n2 = normalised(slow);
    if n1 != n2 {
        let diff = n1.iter().zip(n2.iter()).find(|(x, y)| x != y);
        let what = diff.map(|(x, _)| x.split(' ').next().unwrap_or("?").to_string()).unwrap_or_else(|| "length".into());
        out.push(v(
            format!("description-differs|{}", what),
            format!("fast-start: {:?} ; standard: {:?}", diff.map(|d| d.0.chars().take(160).collect::<String>()), diff.map(|d| d.1.chars().take(160).collect::<String>())),
        ));
    }
    // chunk offsets must actually differ between layouts when there are samples (absolute positions)
    if let (Some(mf), Some(ms)) = (fast.movie.mdat, slow.movie.mdat) {
        obs.count("mdat_shift_observed", (mf.0 != ms.0) as u64);
    }
    out
}
