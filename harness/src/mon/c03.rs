//! C03 — decode and composition timing in the file equals the submitted timestamps.

use super::*;
use crate::model::basic::Ticks;

fn v(sig: String, detail: String) -> Violation {
    Violation::new("C03", sig, detail)
}

/// Find d0 in cand(D_0) with d0 + cum_i admitted by D_i for all i. Returns the anchor or the
/// first failing index (for the best candidate).
pub fn anchor(dts: &[Ticks], deltas: &[u32]) -> Result<u64, (usize, u64, Ticks)> {
    let mut best: Option<(usize, u64, Ticks)> = None;
    for d0 in dts[0].candidates() {
        let mut cur = d0;
        let mut fail = None;
        for (i, t) in dts.iter().enumerate() {
            if !t.admits(cur) {
                fail = Some((i, cur, *t));
                break;
            }
            if i < deltas.len() {
                cur += deltas[i] as u64;
            }
        }
        match fail {
            None => return Ok(d0),
            Some(f) => {
                if best.map(|b| f.0 > b.0).unwrap_or(true) {
                    best = Some(f);
                }
            }
        }
    }
    Err(best.unwrap())
}

/// Every candidate of D_0 that satisfies the decode-time constraints (there can be two when the
/// first timestamp sits on a rounding tie; later clauses must hold for at least one of them).
pub fn anchors(dts: &[Ticks], deltas: &[u32]) -> Vec<u64> {
    dts[0]
        .candidates()
        .into_iter()
        .filter(|&d0| {
            let mut cur = d0;
            for (i, t) in dts.iter().enumerate() {
                if !t.admits(cur) {
                    return false;
                }
                if i < deltas.len() {
                    cur += deltas[i] as u64;
                }
            }
            true
        })
        .collect()
}

pub fn check(a: &Analysis, obs: &mut Obs) -> Vec<Violation> {
    let mut out = Vec::new();
    if !a.finished_ok() {
        return out;
    }
    if a.ledger.any_huge {
        obs.count("skipped_huge_timestamps(C16 zone)", 1);
        return out;
    }
    // ---------------- video
    if let Some(vt) = a.video_track() {
        let lv = &a.ledger.video;
        let n = lv.len();
        if vt.samples.len() == n && n > 0 {
            let dts: Vec<Ticks> = lv.iter().map(|f| f.dts).collect();
            let deltas: Vec<u32> = vt.samples.iter().map(|s| s.dur).collect();
            match anchor(&dts, &deltas[..n - 1]) {
                Ok(_) => {
                    // composition offsets: must be consistent with one admissible anchor
                    let mut any_expected_nonzero = false;
                    let mut first_fail: Option<Violation> = None;
                    let mut ok = false;
                    for d0 in anchors(&dts, &deltas[..n - 1]) {
                        let mut cur = d0;
                        let mut fail = None;
                        let mut nonzero = false;
                        for (i, (s, f)) in vt.samples.iter().zip(lv.iter()).enumerate() {
                            if let (Some(p), Some(d)) = (f.pts.lo(), f.dts.lo()) {
                                if (p as i128 - d as i128).abs() >= i32::MAX as i128 {
                                    obs.count("ctts_clause_delegated_to_C16(|pts-dts| >= 2^31)", 1);
                                    break;
                                }
                            }
                            let comp = cur as i64 + s.cts_off;
                            if comp < 0 || !f.pts.admits(comp as u64) {
                                fail = Some(v(
                                    "video|ctts-offset".into(),
                                    format!("sample {}: decode tick {} + composition offset {} = {} but submitted pts {:?}s = {:?} ticks", i + 1, cur, s.cts_off, comp, f.pts_s, f.pts),
                                ));
                                break;
                            }
                            if !f.pts.admits(cur) {
                                nonzero = true;
                            }
                            cur += s.dur as u64;
                        }
                        match fail {
                            None => {
                                ok = true;
                                any_expected_nonzero = nonzero;
                                break;
                            }
                            Some(f) => {
                                first_fail.get_or_insert(f);
                            }
                        }
                    }
                    if !ok {
                        if let Some(f) = first_fail {
                            out.push(f);
                        }
                    }
                    match &vt.ctts {
                        Some((ver, ent)) => {
                            if ent.iter().all(|&(_, o)| o == 0) {
                                out.push(v("video|ctts-presence|present-but-all-zero".into(), "ctts present although every offset is zero".into()));
                            }
                            if *ver == 0 && lv.iter().zip(vt.samples.iter()).any(|(_, s)| s.cts_off < 0) {
                                out.push(v("video|ctts-v0-negative".into(), "version-0 ctts cannot carry negative offsets".into()));
                            }
                        }
                        None => {
                            if any_expected_nonzero {
                                // already reported as ctts-offset above (offset 0 not admitted)
                            }
                        }
                    }
                    obs.count("video_deltas_checked", (n - 1) as u64);
                    if vt.ctts.is_some() {
                        obs.count("files_with_ctts", 1);
                    }
                }
                Err((i, got, want)) => out.push(v(
                    "video|delta-mismatch".into(),
                    format!("decode time of sample {} on the file's timeline is {} ticks (sum of stts deltas from the first sample) but submitted dts {:?}s = {:?}", i + 1, got, lv[i].dts_s, want),
                )),
            }
            if n >= 2 && deltas[n - 1] != deltas[n - 2] {
                out.push(v("video|last-delta".into(), format!("last sample duration {} != preceding interval {}", deltas[n - 1], deltas[n - 2])));
            }
            let sum: u64 = deltas.iter().map(|&d| d as u64).sum();
            // (a track longer than 2^32 ticks needs the version-1 box; a version-0 box cannot
            // hold the sum and is reported here as well)
            if vt.mdhd.duration != sum {
                out.push(v("video|mdhd-duration".into(), format!("mdhd (version {}) duration {} != sum of sample durations {}", vt.mdhd.version, vt.mdhd.duration, sum)));
            }
            if sum > u32::MAX as u64 {
                obs.count("tracks_longer_than_2^32_ticks", 1);
            }
        }
    }
    // ---------------- audio
    if let Some(at) = a.audio_track() {
        let la = &a.ledger.audio;
        let n = la.len();
        if at.samples.len() == n && n > 0 {
            let pts: Vec<Ticks> = la.iter().map(|f| f.pts).collect();
            let deltas: Vec<u32> = at.samples.iter().map(|s| s.dur).collect();
            if let Err((i, got, want)) = anchor(&pts, &deltas[..n - 1]) {
                out.push(v(
                    "audio|delta-mismatch".into(),
                    format!("time of audio sample {} on the file's timeline is {} ticks but submitted pts {:?}s = {:?}", i + 1, got, la[i].pts_s, want),
                ));
            } else {
                obs.count("audio_deltas_checked", (n - 1) as u64);
            }
            if n >= 2 && deltas[n - 1] != deltas[n - 2] {
                out.push(v("audio|last-delta".into(), format!("last sample duration {} != preceding interval {}", deltas[n - 1], deltas[n - 2])));
            }
            if at.ctts.is_some() {
                out.push(v("audio|ctts-presence".into(), "audio track carries a ctts".into()));
            }
            let sum: u64 = deltas.iter().map(|&d| d as u64).sum();
            if at.mdhd.duration != sum {
                out.push(v("audio|mdhd-duration".into(), format!("mdhd (version {}) duration {} != sum of sample durations {}", at.mdhd.version, at.mdhd.duration, sum)));
            }
            if sum > u32::MAX as u64 {
                obs.count("tracks_longer_than_2^32_ticks", 1);
            }
        }
    }
    obs.max("max_frames_in_a_history", a.ledger.video.len() as u64);
    if a.ledger.any_ambiguous {
        obs.count("histories_with_tie_ambiguity", 1);
    }
    out
}
