//! C07 — the codec configuration in the file is exactly that of the submitted stream.

use super::*;
use crate::model::av1::{parse_seq_hdr, scan_for_seq_hdr, Av1Expect, SeqHdr, SeqScan};
use crate::model::basic::units;
use crate::model::vp9::Vp9Fields;
use crate::specdec as sd;
use serde::{Deserialize, Serialize};

/// Side information the generator knows about the first keyframe.
#[derive(Serialize, Deserialize, Clone, Debug, Default)]
pub struct Side {
    pub av1: Option<SeqHdr>,
    pub vp9: Option<Vp9Fields>,
    /// index of the op the side information describes
    #[serde(default)]
    pub op: usize,
}

fn v(sig: String, detail: String) -> Violation {
    Violation::new("C07", sig, detail)
}

pub fn fourcc_of(codec: u8) -> &'static [&'static [u8; 4]] {
    match codec {
        H264 => &[b"avc1", b"avc3"],
        H265 => &[b"hvc1", b"hev1"],
        AV1 => &[b"av01"],
        _ => &[b"vp09"],
    }
}

fn find<'a>(children: &'a [([u8; 4], Vec<u8>)], t: &[u8; 4]) -> Option<&'a Vec<u8>> {
    children.iter().find(|(k, _)| k == t).map(|(_, p)| p)
}

fn av1_compare(c: &sd::Av1C, e: &Av1Expect, tag: &str, where_: &str, out: &mut Vec<Violation>) {
    let pairs: [(&str, u32, u32); 9] = [
        ("seq_profile", c.seq_profile as u32, e.seq_profile as u32),
        ("seq_level_idx_0", c.seq_level_idx_0 as u32, e.seq_level_idx_0 as u32),
        ("seq_tier_0", c.seq_tier_0 as u32, e.seq_tier_0 as u32),
        ("high_bitdepth", c.high_bitdepth as u32, e.high_bitdepth as u32),
        ("twelve_bit", c.twelve_bit as u32, e.twelve_bit as u32),
        ("monochrome", c.monochrome as u32, e.monochrome as u32),
        ("chroma_subsampling_x", c.sub_x as u32, e.sub_x as u32),
        ("chroma_subsampling_y", c.sub_y as u32, e.sub_y as u32),
        ("chroma_sample_position", c.csp as u32, e.csp as u32),
    ];
    // a record that equals the library's defaults although the header says otherwise
    let defaulted = (c.seq_profile, c.seq_level_idx_0, c.seq_tier_0, c.high_bitdepth, c.twelve_bit, c.monochrome, c.sub_x, c.sub_y, c.csp) == (0, 0, 0, false, false, false, true, true, 0);
    for (name, got, want) in pairs {
        if got != want {
            if defaulted && name != "chroma_sample_position" {
                out.push(v(
                    format!("{}|av1C.all-fields-defaulted|{}", where_, tag),
                    format!("av1C carries default field values (profile 0, level 0, 4:2:0, 8 bit) but the sequence header says {:?}", e),
                ));
                return;
            }
            out.push(v(
                format!("{}|av1C.{}|{}", where_, name, tag),
                format!("av1C {} = {} but the sequence header says {} (header: {:?})", name, got, want, e),
            ));
            return;
        }
    }
}

/// Tag describing which header branches are relevant to known weak spots.
pub fn av1_tag(h: Option<&SeqHdr>, e: &Av1Expect) -> String {
    if e.monochrome {
        return "mono".to_string();
    }
    match h {
        Some(h) if h.reduced => "reduced",
        Some(h) if h.timing.is_some() => "timing-info",
        Some(_) => "no-timing-info",
        None => "?",
    }
    .to_string()
}

/// Judge a visual sample entry against the first keyframe / supplied sets.
#[allow(clippy::too_many_arguments)]
pub fn check_visual(
    entry: &[u8],
    codec: u8,
    width: u32,
    height: u32,
    first_key: Option<&[u8]>,
    supplied: Option<&FragCfg>,
    side: &Side,
    where_: &str,
    obs: &mut Obs,
) -> Vec<Violation> {
    let mut out = Vec::new();
    let mut dev = Vec::new();
    let Some(ve) = sd::visual_entry(entry, &mut dev) else {
        out.push(v(format!("{}|entry-undecodable", where_), format!("{:?}", dev)));
        return out;
    };
    let cn = codec_name(codec);
    if !fourcc_of(codec).iter().any(|f| **f == ve.typ) {
        out.push(v(format!("{}|fourcc|{}", where_, cn), format!("sample entry type {} for codec {}", bmff::fourcc(&ve.typ), cn)));
        return out;
    }
    if width <= 65_535 && height <= 65_535 && (ve.width as u32 != width || ve.height as u32 != height) {
        out.push(v(format!("{}|dimensions|{}", where_, cn), format!("sample entry {}x{} but configured {}x{}", ve.width, ve.height, width, height)));
    }
    match codec {
        H264 => {
            let Some(p) = find(&ve.children, b"avcC") else {
                out.push(v(format!("{}|avcC-missing", where_), "no avcC in avc1 entry".into()));
                return out;
            };
            let Some(c) = sd::avcc(p, &mut dev) else {
                out.push(v(format!("{}|avcC-undecodable", where_), format!("{:?}", dev)));
                return out;
            };
            let (sps, pps): (Vec<u8>, Vec<u8>) = match (first_key, supplied) {
                (Some(k), _) => {
                    let u = units(k);
                    let s = u.iter().find(|n| n[0] & 0x1f == 7).map(|n| n.to_vec()).unwrap_or_default();
                    let q = u.iter().find(|n| n[0] & 0x1f == 8).map(|n| n.to_vec()).unwrap_or_default();
                    (s, q)
                }
                (None, Some(f)) => (f.sps.clone().unwrap_or_default(), f.pps.clone().unwrap_or_default()),
                _ => return out,
            };
            if sps.len() > 65_535 || pps.len() > 65_535 {
                if first_key.is_some() {
                    // the frame was accepted although its first SPS/PPS cannot be carried by a
                    // 16-bit length: whatever the record holds, it is not that parameter set
                    out.push(v(
                        format!("{}|avcC.oversized-first-set-accepted", where_),
                        format!("first SPS/PPS of the accepted keyframe are {} / {} bytes (> 65535); avcC holds SPS {} PPS {}", sps.len(), pps.len(), c.sps.first().map(|s| crate::util::hex_short(s)).unwrap_or_default(), c.pps.first().map(|s| crate::util::hex_short(s)).unwrap_or_default()),
                    ));
                    return out;
                }
                obs.count("delegated_to_C16(supplied parameter set > 65535 bytes)", 1);
                return out;
            }
            if c.sps.len() != 1 || c.sps[0] != sps {
                out.push(v(
                    format!("{}|avcC.sps", where_),
                    format!("avcC holds {} SPS, first = {} ; first SPS of the keyframe = {}", c.sps.len(), c.sps.first().map(|s| crate::util::hex_short(s)).unwrap_or_default(), crate::util::hex_short(&sps)),
                ));
            } else if c.pps.len() != 1 || c.pps[0] != pps {
                out.push(v(
                    format!("{}|avcC.pps", where_),
                    format!("avcC holds {} PPS, first = {} ; first PPS of the keyframe = {}", c.pps.len(), c.pps.first().map(|s| crate::util::hex_short(s)).unwrap_or_default(), crate::util::hex_short(&pps)),
                ));
            } else if sps.len() >= 4 && (c.profile, c.compat, c.level) != (sps[1], sps[2], sps[3]) {
                out.push(v(format!("{}|avcC.profile-level", where_), format!("avcC profile/compat/level {:02x} {:02x} {:02x} but SPS says {:02x} {:02x} {:02x}", c.profile, c.compat, c.level, sps[1], sps[2], sps[3])));
            }
            if c.length_size != 4 {
                out.push(v(format!("{}|avcC.lengthSize", where_), format!("NAL length size {} but samples use 4-byte lengths", c.length_size)));
            }
            obs.count("avcC_checked", 1);
        }
        H265 => {
            let Some(p) = find(&ve.children, b"hvcC") else {
                out.push(v(format!("{}|hvcC-missing", where_), "no hvcC in hvc1 entry".into()));
                return out;
            };
            let Some(c) = sd::hvcc(p, &mut dev) else {
                out.push(v(format!("{}|hvcC-undecodable", where_), format!("{:?}", dev)));
                return out;
            };
            let want: Vec<(u8, Vec<u8>)> = match (first_key, supplied) {
                (Some(k), _) => {
                    let u = units(k);
                    [32u8, 33, 34].iter().map(|t| (*t, u.iter().find(|n| (n[0] >> 1) & 0x3f == *t).map(|n| n.to_vec()).unwrap_or_default())).collect()
                }
                (None, Some(f)) => vec![(32, f.vps.clone().unwrap_or_default()), (33, f.sps.clone().unwrap_or_default()), (34, f.pps.clone().unwrap_or_default())],
                _ => return out,
            };
            if want.iter().any(|(_, n)| n.len() > 65_535) {
                if first_key.is_some() {
                    out.push(v(
                        format!("{}|hvcC.oversized-first-set-accepted", where_),
                        format!("first VPS/SPS/PPS of the accepted keyframe are {:?} bytes (one > 65535); the record cannot carry it", want.iter().map(|(_, n)| n.len()).collect::<Vec<_>>()),
                    ));
                    return out;
                }
                obs.count("delegated_to_C16(supplied parameter set > 65535 bytes)", 1);
                return out;
            }
            for (t, nal) in &want {
                let arrs: Vec<_> = c.arrays.iter().filter(|a| a.0 == *t).collect();
                let name = match t {
                    32 => "vps",
                    33 => "sps",
                    _ => "pps",
                };
                if arrs.len() != 1 || arrs[0].2.len() != 1 || &arrs[0].2[0] != nal {
                    out.push(v(
                        format!("{}|hvcC.{}", where_, name),
                        format!("hvcC arrays of type {}: {:?} ; first {} of the keyframe = {}", t, arrs.iter().map(|a| a.2.iter().map(|n| crate::util::hex_short(n)).collect::<Vec<_>>()).collect::<Vec<_>>(), name, crate::util::hex_short(nal)),
                    ));
                    break;
                }
            }
            if c.arrays.iter().any(|a| ![32, 33, 34].contains(&a.0)) {
                out.push(v(format!("{}|hvcC.extra-array", where_), "hvcC contains an array that is not VPS/SPS/PPS".into()));
            }
            if c.length_size != 4 {
                out.push(v(format!("{}|hvcC.lengthSize", where_), format!("NAL length size {}", c.length_size)));
            }
            obs.count("hvcC_checked", 1);
        }
        AV1 => {
            let Some(p) = find(&ve.children, b"av1C") else {
                out.push(v(format!("{}|av1C-missing", where_), "no av1C in av01 entry".into()));
                return out;
            };
            let Some(c) = sd::av1c(p, &mut dev) else {
                out.push(v(format!("{}|av1C-undecodable", where_), format!("{:?}", dev)));
                return out;
            };
            // expected OBU + fields
            let (obu, expect): (Vec<u8>, Option<Av1Expect>) = match (first_key, supplied) {
                (Some(k), _) => match scan_for_seq_hdr(k) {
                    SeqScan::Valid(o, e) => (o, Some(e)),
                    _ => return out,
                },
                (None, Some(f)) => {
                    let o = f.av1_seq.clone().unwrap_or_default();
                    let e = match scan_for_seq_hdr(&o) {
                        SeqScan::Valid(_, e) => Some(e),
                        _ => None,
                    };
                    (o, e)
                }
                _ => return out,
            };
            // the struct the header was generated from is the primary oracle; the model parser
            // is used when no struct is available (replays without side information)
            let expect = side.av1.as_ref().map(|h| h.expect()).or(expect);
            if c.config_obus != obu {
                out.push(v(
                    format!("{}|av1C.configOBUs", where_),
                    format!("configOBUs = {} ; sequence header OBU = {}", crate::util::hex_short(&c.config_obus), crate::util::hex_short(&obu)),
                ));
            }
            if let Some(e) = expect {
                let tag = av1_tag(side.av1.as_ref(), &e);
                if let Some(h) = &side.av1 {
                    for b in h.branches() {
                        obs.set("av1_branches", b);
                    }
                    // cross-check the two model sides
                    if let SeqScan::Valid(_, pe) = scan_for_seq_hdr(&obu) {
                        if pe != e {
                            obs.count("MODEL_DISAGREEMENT_writer_vs_parser", 1);
                        }
                    }
                }
                av1_compare(&c, &e, &tag, where_, &mut out);
                if !c.marker || c.version != 1 {
                    out.push(v(format!("{}|av1C.marker-version", where_), format!("marker={} version={}", c.marker, c.version)));
                }
                obs.count("av1C_checked", 1);
            }
            let _ = parse_seq_hdr;
        }
        _ => {
            let Some(p) = find(&ve.children, b"vpcC") else {
                out.push(v(format!("{}|vpcC-missing", where_), "no vpcC in vp09 entry".into()));
                return out;
            };
            let Some(c) = sd::vpcc(p, &mut dev) else {
                out.push(v(format!("{}|vpcC-undecodable", where_), format!("{:?}", dev)));
                return out;
            };
            let want: Option<(u8, u8, u8, u8, u8, u8)> = match (&side.vp9, supplied) {
                (Some(f), _) => Some(crate::model::vp9::expect(f)),
                (None, Some(f)) => f.vp9.map(|x| (x[2] as u8, x[3] as u8, x[4] as u8, x[5] as u8, x[6] as u8, x[8] as u8)),
                _ => None,
            };
            if let Some((profile, depth, cs, tf, mc, fr)) = want {
                let got = (c.profile, c.bit_depth, c.colour_primaries, c.transfer, c.matrix);
                if got != (profile, depth, cs, tf, mc) {
                    out.push(v(
                        format!("{}|vpcC.fields", where_),
                        format!("vpcC (profile,depth,colour,transfer,matrix) = {:?} ; first keyframe / supplied = {:?}", got, (profile, depth, cs, tf, mc)),
                    ));
                } else if c.full_range != fr {
                    // (for colour space 0 the documented reading is "limited range": model::vp9::expect)
                    out.push(v(format!("{}|vpcC.full_range", where_), format!("vpcC full range {} ; keyframe {}", c.full_range, fr)));
                }
                obs.count("vpcC_checked", 1);
            }
        }
    }
    out
}

/// Judge an audio sample entry.
pub fn check_audio(entry: &[u8], ac: &AudioCfg, obs: &mut Obs) -> Vec<Violation> {
    let mut out = Vec::new();
    let mut dev = Vec::new();
    let Some(ae) = sd::audio_entry(entry, &mut dev) else {
        out.push(v("audio|entry-undecodable".into(), format!("{:?}", dev)));
        return out;
    };
    let want_type: &[u8; 4] = if ac.is_opus() { b"Opus" } else { b"mp4a" };
    if &ae.typ != want_type {
        out.push(v("audio|fourcc".into(), format!("audio sample entry {} for {}", bmff::fourcc(&ae.typ), bmff::fourcc(want_type))));
        return out;
    }
    if ae.channels != ac.channels {
        out.push(v("audio|channelcount".into(), format!("sample entry channelcount {} but configured {}", ae.channels, ac.channels)));
    }
    let rate = if ac.is_opus() { 48_000 } else { ac.rate };
    if rate <= 65_535 {
        if ae.rate_fixed != rate << 16 {
            out.push(v("audio|samplerate".into(), format!("sample entry rate field {:#010x} but expected {} Hz as 16.16", ae.rate_fixed, rate)));
        }
    } else {
        obs.count("delegated_to_C16(rate > 65535)", 1);
    }
    if ac.is_opus() {
        match find(&ae.children, b"dOps").and_then(|p| sd::dops(p, &mut dev)) {
            Some(d) => {
                if ac.channels <= 255 && d.channels as u16 != ac.channels {
                    out.push(v("audio|dOps.channels".into(), format!("dOps OutputChannelCount {} but configured {}", d.channels, ac.channels)));
                }
                obs.count("dOps_checked", 1);
            }
            None => out.push(v("audio|dOps-missing".into(), format!("{:?}", dev))),
        }
    } else {
        match find(&ae.children, b"esds").and_then(|p| sd::esds(p, &mut dev)) {
            Some(e) => {
                if let Some(idx) = crate::gen::frames::AAC_RATES.iter().position(|&r| r == ac.rate) {
                    if e.sfi as usize != idx {
                        out.push(v("audio|esds.samplingFrequencyIndex".into(), format!("AudioSpecificConfig sampling index {} but {} Hz is index {}", e.sfi, ac.rate, idx)));
                    }
                    if (1..=7).contains(&ac.channels) && e.channel_cfg as u16 != ac.channels {
                        out.push(v("audio|esds.channelConfiguration".into(), format!("AudioSpecificConfig channel configuration {} but configured {}", e.channel_cfg, ac.channels)));
                    }
                    obs.count("esds_checked", 1);
                } else {
                    obs.count("esds_skipped_nonstandard_rate", 1);
                }
            }
            None => out.push(v("audio|esds-missing".into(), format!("{:?}", dev))),
        }
    }
    out
}

/// Progressive file: judge both tracks' sample descriptions.
pub fn check_file(a: &Analysis, side: &Side, obs: &mut Obs) -> Vec<Violation> {
    let mut out = Vec::new();
    if !a.finished_ok() {
        return out;
    }
    if let (Some(vt), Some(first)) = (a.video_track(), a.ledger.video.first()) {
        let key = a.h.ops[first.op].data().unwrap_or(&[]);
        // the generator's side information describes op 0; if another frame became the first
        // accepted one, fall back to the model-side parse of that frame
        let none = Side::default();
        let side = if first.op == side.op { side } else { &none };
        out.extend(check_visual(&vt.entry, a.h.cfg.vcodec, a.h.cfg.width, a.h.cfg.height, Some(key), None, side, "file", obs));
    }
    if let (Some(at), Some(ac)) = (a.audio_track(), a.h.cfg.audio_effective()) {
        out.extend(check_audio(&at.entry, ac, obs));
    }
    out
}

/// Fragmented init segment built from builder-supplied parameter sets.
pub fn check_init(init: &[u8], f: &FragCfg, side: &Side, obs: &mut Obs) -> Vec<Violation> {
    let tree = bmff::parse_tree(init);
    let movie = bmff::parse_movie(init, &tree);
    let Some(t) = movie.tracks.first() else {
        return vec![v("init|no-track".into(), "init segment has no track".into())];
    };
    check_visual(&t.entry, f.vcodec, f.width, f.height, None, Some(f), side, "init", obs)
}
