//! Independent ISO-BMFF reader (ISO/IEC 14496-12). Shares no code with muxide.
//!
//! Deliberately more general than what muxide emits today (64-bit sizes, co64, arbitrary stsc
//! runs, constant-size stsz, stz2, ctts v0/v1, v0/v1 headers, edit lists, tfhd defaults, optional
//! trun fields, several truns), so behaviour-preserving refactors stay silent.

use crate::util::{be16, be32, be64};

#[derive(Clone, Debug)]
pub struct BoxNode {
    pub typ: [u8; 4],
    /// absolute offset of the box start in the stream
    pub start: usize,
    /// total size including header
    pub size: usize,
    /// header length (8 or 16)
    pub hdr: usize,
    pub children: Vec<BoxNode>,
}

impl BoxNode {
    pub fn typ_str(&self) -> String {
        fourcc(&self.typ)
    }
    pub fn payload<'a>(&self, data: &'a [u8]) -> &'a [u8] {
        &data[self.start + self.hdr..self.start + self.size]
    }
    pub fn bytes<'a>(&self, data: &'a [u8]) -> &'a [u8] {
        &data[self.start..self.start + self.size]
    }
    pub fn child(&self, t: &[u8; 4]) -> Option<&BoxNode> {
        self.children.iter().find(|c| &c.typ == t)
    }
    pub fn children_of(&self, t: &[u8; 4]) -> Vec<&BoxNode> {
        self.children.iter().filter(|c| &c.typ == t).collect()
    }
    pub fn path(&self, p: &[&[u8; 4]]) -> Option<&BoxNode> {
        let mut cur = self;
        for t in p {
            cur = cur.child(t)?;
        }
        Some(cur)
    }
    pub fn count_all(&self) -> usize {
        1 + self.children.iter().map(|c| c.count_all()).sum::<usize>()
    }
}

pub fn fourcc(t: &[u8; 4]) -> String {
    t.iter()
        .map(|&b| if (0x20..0x7f).contains(&b) { b as char } else { '?' })
        .collect()
}

#[derive(Clone, Debug, Default)]
pub struct Tree {
    pub top: Vec<BoxNode>,
    pub errors: Vec<String>,
}

impl Tree {
    pub fn top_types(&self) -> Vec<String> {
        self.top.iter().map(|b| b.typ_str()).collect()
    }
    pub fn find_top(&self, t: &[u8; 4]) -> Vec<&BoxNode> {
        self.top.iter().filter(|b| &b.typ == t).collect()
    }
    pub fn count_all(&self) -> usize {
        self.top.iter().map(|c| c.count_all()).sum()
    }
}

#[derive(Clone, Copy, PartialEq, Eq, Debug)]
enum Ctx {
    Top,
    Plain,
    Ilst,
    IlstItem,
}

/// how children of a box of this type (in this context) are laid out: Some(skip) = container whose
/// children start `skip` bytes into the payload
fn container_skip(typ: &[u8; 4], ctx: Ctx) -> Option<usize> {
    if ctx == Ctx::Ilst {
        return Some(0);
    }
    if ctx == Ctx::IlstItem {
        return None;
    }
    match typ {
        b"moov" | b"trak" | b"mdia" | b"minf" | b"stbl" | b"dinf" | b"udta" | b"mvex" | b"moof"
        | b"traf" | b"edts" | b"ilst" | b"mfra" => Some(0),
        b"meta" => Some(4),
        b"stsd" | b"dref" => Some(8),
        b"avc1" | b"avc3" | b"hvc1" | b"hev1" | b"av01" | b"vp09" | b"vp08" | b"encv" => Some(78),
        b"mp4a" | b"Opus" | b"enca" | b"ac-3" | b"ec-3" | b"fLaC" => Some(28),
        _ => None,
    }
}

fn parse_level(data: &[u8], lo: usize, hi: usize, ctx: Ctx, path: &str, errors: &mut Vec<String>, depth: usize) -> Vec<BoxNode> {
    let mut out = Vec::new();
    let mut pos = lo;
    while pos < hi {
        if hi - pos < 8 {
            errors.push(format!("{}: {} trailing bytes at {} do not form a box header", path, hi - pos, pos));
            break;
        }
        let size32 = be32(&data[pos..]) as usize;
        let typ: [u8; 4] = [data[pos + 4], data[pos + 5], data[pos + 6], data[pos + 7]];
        let (size, hdr) = if size32 == 1 {
            if hi - pos < 16 {
                errors.push(format!("{}/{}: largesize header truncated at {}", path, fourcc(&typ), pos));
                break;
            }
            let s = be64(&data[pos + 8..]);
            if s > (hi - pos) as u64 {
                errors.push(format!("{}/{}: largesize {} overruns parent (avail {}) at {}", path, fourcc(&typ), s, hi - pos, pos));
                break;
            }
            (s as usize, 16)
        } else if size32 == 0 {
            if ctx != Ctx::Top {
                errors.push(format!("{}/{}: size 0 (to end) below top level at {}", path, fourcc(&typ), pos));
                break;
            }
            (hi - pos, 8)
        } else {
            (size32, 8)
        };
        if size < hdr {
            errors.push(format!("{}/{}: declared size {} smaller than header at {}", path, fourcc(&typ), size, pos));
            break;
        }
        if size > hi - pos {
            errors.push(format!("{}/{}: declared size {} overruns parent (avail {}) at {}", path, fourcc(&typ), size, hi - pos, pos));
            break;
        }
        let mut node = BoxNode { typ, start: pos, size, hdr, children: Vec::new() };
        if depth < 24 {
            if let Some(skip) = container_skip(&typ, ctx) {
                let plo = pos + hdr + skip;
                let phi = pos + size;
                let cpath = format!("{}/{}", path, fourcc(&typ));
                if plo > phi {
                    errors.push(format!("{}: payload {} shorter than fixed part {}", cpath, size - hdr, skip));
                } else {
                    let cctx = if ctx == Ctx::Ilst {
                        Ctx::IlstItem
                    } else if &typ == b"ilst" {
                        Ctx::Ilst
                    } else {
                        Ctx::Plain
                    };
                    // ilst items hold ordinary boxes ("data", "mean", "name"): parse them plainly
                    let cctx = if cctx == Ctx::IlstItem { Ctx::IlstItem } else { cctx };
                    node.children = if cctx == Ctx::IlstItem {
                        parse_level(data, plo, phi, Ctx::Plain, &cpath, errors, depth + 1)
                    } else {
                        parse_level(data, plo, phi, cctx, &cpath, errors, depth + 1)
                    };
                }
            }
        }
        out.push(node);
        pos += size;
    }
    out
}

/// Parse a byte stream into a strict box tree; every tiling defect is reported in `errors`.
pub fn parse_tree(data: &[u8]) -> Tree {
    let mut errors = Vec::new();
    let top = parse_level(data, 0, data.len(), Ctx::Top, "", &mut errors, 0);
    Tree { top, errors }
}

// ---------------------------------------------------------------------------------------------
// Movie model
// ---------------------------------------------------------------------------------------------

#[derive(Clone, Debug, Default, PartialEq)]
pub struct Mvhd {
    pub version: u8,
    pub timescale: u32,
    pub duration: u64,
    pub next_track_id: u32,
}

#[derive(Clone, Debug, Default, PartialEq)]
pub struct Mdhd {
    pub version: u8,
    pub timescale: u32,
    pub duration: u64,
    pub lang_packed: u16,
}

impl Mdhd {
    pub fn language(&self) -> String {
        let p = self.lang_packed;
        let c = |v: u16| -> char { (((v & 0x1f) as u8) + 0x60) as char };
        format!("{}{}{}", c(p >> 10), c(p >> 5), c(p))
    }
}

#[derive(Clone, Debug, PartialEq)]
pub struct Sample {
    pub offset: u64,
    pub size: u32,
    pub dts: u64,
    pub dur: u32,
    pub cts_off: i64,
    pub sync: bool,
}

#[derive(Clone, Debug, Default, PartialEq)]
pub struct ElstEntry {
    pub segment_duration: u64,
    pub media_time: i64,
    pub rate_int: i16,
    pub rate_frac: i16,
}

#[derive(Clone, Debug, Default)]
pub struct Track {
    pub track_id: u32,
    pub handler: [u8; 4],
    pub mdhd: Mdhd,
    pub entry_type: [u8; 4],
    /// full bytes of the (first) sample entry box
    pub entry: Vec<u8>,
    pub stsd_count: u32,
    pub stts: Vec<(u32, u32)>,
    pub ctts: Option<(u8, Vec<(u32, i64)>)>,
    pub stss: Option<Vec<u32>>,
    pub stsc: Vec<(u32, u32, u32)>,
    pub sizes: Vec<u32>,
    pub chunk_offsets: Vec<u64>,
    pub co64: bool,
    pub elst: Option<Vec<ElstEntry>>,
    pub samples: Vec<Sample>,
    pub media_header: [u8; 4],
}

#[derive(Clone, Debug, Default)]
pub struct Movie {
    pub mvhd: Mvhd,
    pub tracks: Vec<Track>,
    /// (type, payload bytes) of ilst items' data boxes: (item type, data type indicator, value)
    pub ilst: Vec<([u8; 4], u32, Vec<u8>)>,
    pub has_udta: bool,
    pub mdat: Option<(usize, usize)>,
    pub trex: Vec<Trex>,
    pub errors: Vec<String>,
}

#[derive(Clone, Debug, Default, PartialEq)]
pub struct Trex {
    pub track_id: u32,
    pub default_desc_index: u32,
    pub default_duration: u32,
    pub default_size: u32,
    pub default_flags: u32,
}

fn full(p: &[u8]) -> Option<(u8, u32, &[u8])> {
    if p.len() < 4 {
        return None;
    }
    Some((p[0], be32(p) & 0x00ff_ffff, &p[4..]))
}

pub fn parse_mvhd(p: &[u8]) -> Option<Mvhd> {
    let (v, _f, b) = full(p)?;
    if v == 1 {
        if b.len() < 28 + 80 {
            return None;
        }
        Some(Mvhd { version: 1, timescale: be32(&b[16..]), duration: be64(&b[20..]), next_track_id: be32(&b[b.len() - 4..]) })
    } else {
        if b.len() < 16 + 80 {
            return None;
        }
        Some(Mvhd { version: v, timescale: be32(&b[8..]), duration: be32(&b[12..]) as u64, next_track_id: be32(&b[b.len() - 4..]) })
    }
}

pub fn parse_mdhd(p: &[u8]) -> Option<Mdhd> {
    let (v, _f, b) = full(p)?;
    if v == 1 {
        if b.len() < 32 {
            return None;
        }
        Some(Mdhd { version: 1, timescale: be32(&b[16..]), duration: be64(&b[20..]), lang_packed: be16(&b[28..]) })
    } else {
        if b.len() < 20 {
            return None;
        }
        Some(Mdhd { version: v, timescale: be32(&b[8..]), duration: be32(&b[12..]) as u64, lang_packed: be16(&b[16..]) })
    }
}

fn parse_tkhd_id(p: &[u8]) -> Option<u32> {
    let (v, _f, b) = full(p)?;
    if v == 1 {
        if b.len() < 20 {
            return None;
        }
        Some(be32(&b[16..]))
    } else {
        if b.len() < 12 {
            return None;
        }
        Some(be32(&b[8..]))
    }
}

fn table_u32x2(p: &[u8], name: &str, errs: &mut Vec<String>) -> Vec<(u32, u32)> {
    let mut out = Vec::new();
    let Some((_v, _f, b)) = full(p) else {
        errs.push(format!("{}: too short", name));
        return out;
    };
    if b.len() < 4 {
        errs.push(format!("{}: missing entry count", name));
        return out;
    }
    let n = be32(b) as usize;
    if b.len() != 4 + n * 8 {
        errs.push(format!("{}: entry_count {} does not match payload {} bytes", name, n, b.len()));
    }
    for i in 0..n {
        let o = 4 + i * 8;
        if o + 8 > b.len() {
            break;
        }
        out.push((be32(&b[o..]), be32(&b[o + 4..])));
    }
    out
}

/// Parse one `trak` node.
pub fn parse_track(data: &[u8], trak: &BoxNode, errs: &mut Vec<String>) -> Track {
    let mut t = Track::default();
    let tag = |s: &str| format!("trak: {}", s);
    if let Some(tkhd) = trak.child(b"tkhd") {
        match parse_tkhd_id(tkhd.payload(data)) {
            Some(id) => t.track_id = id,
            None => errs.push(tag("tkhd too short")),
        }
    } else {
        errs.push(tag("missing tkhd"));
    }
    if let Some(elst) = trak.path(&[b"edts", b"elst"]) {
        let p = elst.payload(data);
        if let Some((v, _f, b)) = full(p) {
            let mut v_out = Vec::new();
            if b.len() >= 4 {
                let n = be32(b) as usize;
                let esz = if v == 1 { 20 } else { 12 };
                if b.len() != 4 + n * esz {
                    errs.push(tag("elst size mismatch"));
                }
                for i in 0..n {
                    let o = 4 + i * esz;
                    if o + esz > b.len() {
                        break;
                    }
                    if v == 1 {
                        v_out.push(ElstEntry {
                            segment_duration: be64(&b[o..]),
                            media_time: be64(&b[o + 8..]) as i64,
                            rate_int: be16(&b[o + 16..]) as i16,
                            rate_frac: be16(&b[o + 18..]) as i16,
                        });
                    } else {
                        v_out.push(ElstEntry {
                            segment_duration: be32(&b[o..]) as u64,
                            media_time: be32(&b[o + 4..]) as i32 as i64,
                            rate_int: be16(&b[o + 8..]) as i16,
                            rate_frac: be16(&b[o + 10..]) as i16,
                        });
                    }
                }
            }
            t.elst = Some(v_out);
        }
    }
    let Some(mdia) = trak.child(b"mdia") else {
        errs.push(tag("missing mdia"));
        return t;
    };
    match mdia.child(b"mdhd").and_then(|b| parse_mdhd(b.payload(data))) {
        Some(m) => t.mdhd = m,
        None => errs.push(tag("missing/short mdhd")),
    }
    if let Some(h) = mdia.child(b"hdlr") {
        let p = h.payload(data);
        if p.len() >= 12 {
            t.handler = [p[8], p[9], p[10], p[11]];
        } else {
            errs.push(tag("hdlr too short"));
        }
    } else {
        errs.push(tag("missing hdlr"));
    }
    let Some(minf) = mdia.child(b"minf") else {
        errs.push(tag("missing minf"));
        return t;
    };
    for mh in [b"vmhd", b"smhd", b"nmhd", b"hmhd", b"sthd"] {
        if minf.child(mh).is_some() {
            t.media_header = *mh;
        }
    }
    let Some(stbl) = minf.child(b"stbl") else {
        errs.push(tag("missing stbl"));
        return t;
    };
    // stsd
    if let Some(stsd) = stbl.child(b"stsd") {
        let p = stsd.payload(data);
        if p.len() >= 8 {
            t.stsd_count = be32(&p[4..]);
        }
        if t.stsd_count as usize != stsd.children.len() {
            errs.push(tag(&format!("stsd entry_count {} but {} entries present", t.stsd_count, stsd.children.len())));
        }
        if let Some(e) = stsd.children.first() {
            t.entry_type = e.typ;
            t.entry = e.bytes(data).to_vec();
        }
    } else {
        errs.push(tag("missing stsd"));
    }
    // stts
    match stbl.child(b"stts") {
        Some(b) => t.stts = table_u32x2(b.payload(data), "stts", errs),
        None => errs.push(tag("missing stts")),
    }
    // ctts
    if let Some(b) = stbl.child(b"ctts") {
        let p = b.payload(data);
        let v = p.first().copied().unwrap_or(0);
        let raw = table_u32x2(p, "ctts", errs);
        let ent = raw
            .into_iter()
            .map(|(c, o)| (c, if v == 0 { o as i64 } else { o as i32 as i64 }))
            .collect();
        t.ctts = Some((v, ent));
    }
    // stss
    if let Some(b) = stbl.child(b"stss") {
        let p = b.payload(data);
        let mut v = Vec::new();
        if let Some((_ver, _f, bb)) = full(p) {
            if bb.len() >= 4 {
                let n = be32(bb) as usize;
                if bb.len() != 4 + n * 4 {
                    errs.push(tag(&format!("stss entry_count {} does not match payload {}", n, bb.len())));
                }
                for i in 0..n {
                    let o = 4 + i * 4;
                    if o + 4 > bb.len() {
                        break;
                    }
                    v.push(be32(&bb[o..]));
                }
            } else {
                errs.push(tag("stss too short"));
            }
        }
        t.stss = Some(v);
    }
    // stsc
    match stbl.child(b"stsc") {
        Some(b) => {
            let p = b.payload(data);
            if let Some((_v, _f, bb)) = full(p) {
                if bb.len() >= 4 {
                    let n = be32(bb) as usize;
                    if bb.len() != 4 + n * 12 {
                        errs.push(tag(&format!("stsc entry_count {} does not match payload {}", n, bb.len())));
                    }
                    for i in 0..n {
                        let o = 4 + i * 12;
                        if o + 12 > bb.len() {
                            break;
                        }
                        t.stsc.push((be32(&bb[o..]), be32(&bb[o + 4..]), be32(&bb[o + 8..])));
                    }
                } else {
                    errs.push(tag("stsc too short"));
                }
            }
        }
        None => errs.push(tag("missing stsc")),
    }
    // stsz / stz2
    if let Some(b) = stbl.child(b"stsz") {
        let p = b.payload(data);
        if let Some((_v, _f, bb)) = full(p) {
            if bb.len() >= 8 {
                let constant = be32(bb);
                let n = be32(&bb[4..]) as usize;
                if constant != 0 {
                    if bb.len() != 8 {
                        errs.push(tag("stsz constant-size form carries a table"));
                    }
                    if n <= (1 << 28) {
                        t.sizes = vec![constant; n];
                    }
                } else {
                    if bb.len() != 8 + n * 4 {
                        errs.push(tag(&format!("stsz sample_count {} does not match payload {}", n, bb.len())));
                    }
                    for i in 0..n {
                        let o = 8 + i * 4;
                        if o + 4 > bb.len() {
                            break;
                        }
                        t.sizes.push(be32(&bb[o..]));
                    }
                }
            } else {
                errs.push(tag("stsz too short"));
            }
        }
    } else if let Some(b) = stbl.child(b"stz2") {
        let p = b.payload(data);
        if let Some((_v, _f, bb)) = full(p) {
            if bb.len() >= 8 {
                let field = bb[3];
                let n = be32(&bb[4..]) as usize;
                let tb = &bb[8..];
                for i in 0..n {
                    let s = match field {
                        4 => tb.get(i / 2).map(|x| if i % 2 == 0 { (x >> 4) as u32 } else { (x & 15) as u32 }),
                        8 => tb.get(i).map(|x| *x as u32),
                        16 => {
                            if i * 2 + 2 <= tb.len() {
                                Some(be16(&tb[i * 2..]) as u32)
                            } else {
                                None
                            }
                        }
                        _ => None,
                    };
                    match s {
                        Some(s) => t.sizes.push(s),
                        None => {
                            errs.push(tag("stz2 table truncated / bad field size"));
                            break;
                        }
                    }
                }
            }
        }
    } else {
        errs.push(tag("missing stsz/stz2"));
    }
    // stco / co64
    if let Some(b) = stbl.child(b"stco") {
        let p = b.payload(data);
        if let Some((_v, _f, bb)) = full(p) {
            if bb.len() >= 4 {
                let n = be32(bb) as usize;
                if bb.len() != 4 + n * 4 {
                    errs.push(tag(&format!("stco entry_count {} does not match payload {}", n, bb.len())));
                }
                for i in 0..n {
                    let o = 4 + i * 4;
                    if o + 4 > bb.len() {
                        break;
                    }
                    t.chunk_offsets.push(be32(&bb[o..]) as u64);
                }
            } else {
                errs.push(tag("stco too short"));
            }
        }
    } else if let Some(b) = stbl.child(b"co64") {
        t.co64 = true;
        let p = b.payload(data);
        if let Some((_v, _f, bb)) = full(p) {
            if bb.len() >= 4 {
                let n = be32(bb) as usize;
                if bb.len() != 4 + n * 8 {
                    errs.push(tag("co64 size mismatch"));
                }
                for i in 0..n {
                    let o = 4 + i * 8;
                    if o + 8 > bb.len() {
                        break;
                    }
                    t.chunk_offsets.push(be64(&bb[o..]));
                }
            }
        }
    } else {
        errs.push(tag("missing stco/co64"));
    }
    resolve_samples(&mut t, errs);
    t
}

/// Expand the tables into a per-sample list (offset, size, dts, duration, composition offset, sync).
fn resolve_samples(t: &mut Track, errs: &mut Vec<String>) {
    let n = t.sizes.len();
    // chunk -> samples
    let nchunks = t.chunk_offsets.len();
    let mut per_chunk: Vec<u32> = vec![0; nchunks];
    if !t.stsc.is_empty() {
        let mut prev_first = 0u32;
        for (i, &(first, spc, _desc)) in t.stsc.iter().enumerate() {
            if first == 0 || first <= prev_first {
                errs.push(format!("trak {}: stsc first_chunk not strictly increasing from 1 ({} after {})", t.track_id, first, prev_first));
                break;
            }
            prev_first = first;
            let end = if i + 1 < t.stsc.len() { t.stsc[i + 1].0 } else { nchunks as u32 + 1 };
            for c in first..end.min(nchunks as u32 + 1) {
                per_chunk[(c - 1) as usize] = spc;
            }
        }
        if t.stsc[0].0 != 1 && nchunks > 0 {
            errs.push(format!("trak {}: stsc does not start at chunk 1", t.track_id));
        }
    } else if nchunks > 0 {
        errs.push(format!("trak {}: {} chunks but empty stsc", t.track_id, nchunks));
    }
    let implied: u64 = per_chunk.iter().map(|&x| x as u64).sum();
    if implied != n as u64 {
        errs.push(format!("trak {}: stsc x chunks implies {} samples, stsz has {}", t.track_id, implied, n));
    }
    let mut offsets: Vec<u64> = Vec::with_capacity(n);
    'outer: for (ci, &spc) in per_chunk.iter().enumerate() {
        let mut cur = t.chunk_offsets[ci];
        for _ in 0..spc {
            if offsets.len() >= n {
                break 'outer;
            }
            offsets.push(cur);
            cur += t.sizes[offsets.len() - 1] as u64;
        }
    }
    // stts
    let stts_total: u64 = t.stts.iter().map(|&(c, _)| c as u64).sum();
    if stts_total != n as u64 {
        errs.push(format!("trak {}: stts covers {} samples, stsz has {}", t.track_id, stts_total, n));
    }
    let mut durs: Vec<u32> = Vec::with_capacity(n);
    for &(c, d) in &t.stts {
        for _ in 0..c {
            if durs.len() >= n {
                break;
            }
            durs.push(d);
        }
    }
    // ctts
    let mut cts: Vec<i64> = Vec::new();
    if let Some((_v, ent)) = &t.ctts {
        let total: u64 = ent.iter().map(|&(c, _)| c as u64).sum();
        if total != n as u64 {
            errs.push(format!("trak {}: ctts covers {} samples, stsz has {}", t.track_id, total, n));
        }
        for &(c, o) in ent {
            for _ in 0..c {
                if cts.len() >= n {
                    break;
                }
                cts.push(o);
            }
        }
    }
    // stss
    if let Some(ss) = &t.stss {
        let mut prev = 0u32;
        for &s in ss {
            if s == 0 || s as usize > n || s <= prev {
                errs.push(format!("trak {}: stss entry {} not strictly increasing within 1..={}", t.track_id, s, n));
                break;
            }
            prev = s;
        }
    }
    let mut dts = 0u64;
    for i in 0..n.min(offsets.len()) {
        let dur = durs.get(i).copied().unwrap_or(0);
        let sync = match &t.stss {
            None => true,
            Some(ss) => ss.binary_search(&(i as u32 + 1)).is_ok() || ss.contains(&(i as u32 + 1)),
        };
        t.samples.push(Sample {
            offset: offsets[i],
            size: t.sizes[i],
            dts,
            dur,
            cts_off: cts.get(i).copied().unwrap_or(0),
            sync,
        });
        dts += dur as u64;
    }
}

/// Parse a complete progressive file or init segment into a `Movie`.
pub fn parse_movie(data: &[u8], tree: &Tree) -> Movie {
    let mut m = Movie::default();
    let mut errs = Vec::new();
    let moovs = tree.find_top(b"moov");
    if let Some(mdat) = tree.find_top(b"mdat").first() {
        m.mdat = Some((mdat.start + mdat.hdr, mdat.size - mdat.hdr));
    }
    let Some(moov) = moovs.first() else {
        errs.push("no moov".to_string());
        m.errors = errs;
        return m;
    };
    match moov.child(b"mvhd").and_then(|b| parse_mvhd(b.payload(data))) {
        Some(h) => m.mvhd = h,
        None => errs.push("missing/short mvhd".to_string()),
    }
    for trak in moov.children_of(b"trak") {
        let t = parse_track(data, trak, &mut errs);
        m.tracks.push(t);
    }
    if let Some(mvex) = moov.child(b"mvex") {
        for tx in mvex.children_of(b"trex") {
            let p = tx.payload(data);
            if p.len() >= 24 {
                m.trex.push(Trex {
                    track_id: be32(&p[4..]),
                    default_desc_index: be32(&p[8..]),
                    default_duration: be32(&p[12..]),
                    default_size: be32(&p[16..]),
                    default_flags: be32(&p[20..]),
                });
            } else {
                errs.push("trex too short".into());
            }
        }
    }
    if let Some(udta) = moov.child(b"udta") {
        m.has_udta = true;
        if let Some(ilst) = udta.path(&[b"meta", b"ilst"]) {
            for item in &ilst.children {
                for d in item.children_of(b"data") {
                    let p = d.payload(data);
                    if p.len() >= 8 {
                        m.ilst.push((item.typ, be32(p), p[8..].to_vec()));
                    } else {
                        errs.push("ilst data box too short".into());
                    }
                }
                if item.children_of(b"data").is_empty() {
                    errs.push(format!("ilst item {} has no data box", fourcc(&item.typ)));
                }
            }
        }
    }
    m.errors = errs;
    m
}

// ---------------------------------------------------------------------------------------------
// Movie fragments
// ---------------------------------------------------------------------------------------------

#[derive(Clone, Debug, PartialEq)]
pub struct FragSample {
    /// absolute offset within the segment byte string
    pub offset: u64,
    pub size: u32,
    pub dur: u32,
    pub flags: u32,
    pub cts_off: i64,
}

#[derive(Clone, Debug, Default)]
pub struct Fragment {
    pub sequence_number: u32,
    pub track_id: u32,
    pub tfhd_flags: u32,
    pub base_decode_time: Option<u64>,
    pub tfdt_version: u8,
    pub samples: Vec<FragSample>,
    pub mdat: Option<(usize, usize)>,
    pub trun_count: usize,
    pub trun_version: u8,
    pub errors: Vec<String>,
}

/// Parse a media segment (moof + mdat) with tfhd defaults / trex defaults honoured.
pub fn parse_fragment(data: &[u8], tree: &Tree, trex: Option<&Trex>) -> Fragment {
    let mut f = Fragment::default();
    let Some(moof) = tree.find_top(b"moof").first().cloned() else {
        f.errors.push("no moof".into());
        return f;
    };
    if let Some(mdat) = tree.find_top(b"mdat").first() {
        f.mdat = Some((mdat.start + mdat.hdr, mdat.size - mdat.hdr));
    }
    match moof.child(b"mfhd") {
        Some(b) => {
            let p = b.payload(data);
            if p.len() >= 8 {
                f.sequence_number = be32(&p[4..]);
            } else {
                f.errors.push("mfhd too short".into());
            }
        }
        None => f.errors.push("missing mfhd".into()),
    }
    let Some(traf) = moof.child(b"traf") else {
        f.errors.push("missing traf".into());
        return f;
    };
    let mut base_data_offset: Option<u64> = None;
    let mut def_dur = trex.map(|t| t.default_duration);
    let mut def_size = trex.map(|t| t.default_size);
    let mut def_flags = trex.map(|t| t.default_flags);
    let mut default_base_is_moof = false;
    match traf.child(b"tfhd") {
        Some(b) => {
            let p = b.payload(data);
            if p.len() >= 8 {
                let fl = be32(p) & 0x00ff_ffff;
                f.tfhd_flags = fl;
                f.track_id = be32(&p[4..]);
                let mut o = 8;
                let mut take32 = |o: &mut usize| -> Option<u32> {
                    if *o + 4 <= p.len() {
                        let v = be32(&p[*o..]);
                        *o += 4;
                        Some(v)
                    } else {
                        None
                    }
                };
                if fl & 0x1 != 0 {
                    if o + 8 <= p.len() {
                        base_data_offset = Some(be64(&p[o..]));
                        o += 8;
                    } else {
                        f.errors.push("tfhd base_data_offset truncated".into());
                    }
                }
                if fl & 0x2 != 0 && take32(&mut o).is_none() {
                    f.errors.push("tfhd sample_description_index truncated".into());
                }
                if fl & 0x8 != 0 {
                    def_dur = take32(&mut o).or(def_dur);
                }
                if fl & 0x10 != 0 {
                    def_size = take32(&mut o).or(def_size);
                }
                if fl & 0x20 != 0 {
                    def_flags = take32(&mut o).or(def_flags);
                }
                default_base_is_moof = fl & 0x20000 != 0;
                if o != p.len() {
                    f.errors.push(format!("tfhd payload {} bytes, flags {:06x} imply {}", p.len(), fl, o));
                }
            } else {
                f.errors.push("tfhd too short".into());
            }
        }
        None => f.errors.push("missing tfhd".into()),
    }
    match traf.child(b"tfdt") {
        Some(b) => {
            let p = b.payload(data);
            if !p.is_empty() {
                f.tfdt_version = p[0];
                if p[0] == 1 && p.len() >= 12 {
                    f.base_decode_time = Some(be64(&p[4..]));
                } else if p[0] == 0 && p.len() >= 8 {
                    f.base_decode_time = Some(be32(&p[4..]) as u64);
                } else {
                    f.errors.push("tfdt too short for its version".into());
                }
            }
        }
        None => f.errors.push("missing tfdt".into()),
    }
    let base: u64 = match base_data_offset {
        Some(b) => b,
        None => {
            // default-base-is-moof, or (first traf of the moof) the moof start as well
            let _ = default_base_is_moof;
            moof.start as u64
        }
    };
    let truns = traf.children_of(b"trun");
    f.trun_count = truns.len();
    if truns.is_empty() {
        f.errors.push("missing trun".into());
    }
    let mut next_offset: Option<u64> = None;
    for tr in truns {
        let p = tr.payload(data);
        if p.len() < 8 {
            f.errors.push("trun too short".into());
            continue;
        }
        let ver = p[0];
        f.trun_version = ver;
        let fl = be32(p) & 0x00ff_ffff;
        let count = be32(&p[4..]) as usize;
        let mut o = 8;
        let mut cur: u64;
        if fl & 0x1 != 0 {
            if o + 4 > p.len() {
                f.errors.push("trun data_offset truncated".into());
                continue;
            }
            let d = be32(&p[o..]) as i32 as i64;
            o += 4;
            cur = (base as i64 + d) as u64;
        } else {
            cur = next_offset.unwrap_or(base);
        }
        let mut first_flags: Option<u32> = None;
        if fl & 0x4 != 0 {
            if o + 4 > p.len() {
                f.errors.push("trun first_sample_flags truncated".into());
                continue;
            }
            first_flags = Some(be32(&p[o..]));
            o += 4;
        }
        let per = [(0x100, 4), (0x200, 4), (0x400, 4), (0x800, 4)]
            .iter()
            .filter(|(b, _)| fl & b != 0)
            .map(|(_, n)| *n)
            .sum::<usize>();
        if p.len() != o + count * per {
            f.errors.push(format!("trun payload {} bytes, flags {:06x} count {} imply {}", p.len(), fl, count, o + count * per));
        }
        for i in 0..count {
            if o + per > p.len() {
                break;
            }
            let dur = if fl & 0x100 != 0 {
                let v = be32(&p[o..]);
                o += 4;
                v
            } else {
                match def_dur {
                    Some(d) => d,
                    None => {
                        f.errors.push("sample duration neither in trun nor defaulted".into());
                        0
                    }
                }
            };
            let size = if fl & 0x200 != 0 {
                let v = be32(&p[o..]);
                o += 4;
                v
            } else {
                match def_size {
                    Some(d) => d,
                    None => {
                        f.errors.push("sample size neither in trun nor defaulted".into());
                        0
                    }
                }
            };
            let flags = if fl & 0x400 != 0 {
                let v = be32(&p[o..]);
                o += 4;
                v
            } else if i == 0 && first_flags.is_some() {
                first_flags.unwrap()
            } else {
                def_flags.unwrap_or(0)
            };
            let cts = if fl & 0x800 != 0 {
                let v = be32(&p[o..]);
                o += 4;
                if ver == 0 {
                    v as i64
                } else {
                    v as i32 as i64
                }
            } else {
                0
            };
            f.samples.push(FragSample { offset: cur, size, dur, flags, cts_off: cts });
            cur += size as u64;
        }
        next_offset = Some(cur);
    }
    f
}

#[cfg(test)]
mod tests {
    use super::*;

    fn bx(t: &[u8; 4], p: &[u8]) -> Vec<u8> {
        let mut v = ((8 + p.len()) as u32).to_be_bytes().to_vec();
        v.extend_from_slice(t);
        v.extend_from_slice(p);
        v
    }

    #[test]
    fn tiling_errors_detected() {
        let mut moov = bx(b"moov", &bx(b"mvhd", &[0u8; 100]));
        assert!(parse_tree(&moov).errors.is_empty());
        moov.push(0);
        assert!(!parse_tree(&moov).errors.is_empty());
        // child overruns parent
        let inner = bx(b"mvhd", &[0u8; 100]);
        let mut bad = bx(b"moov", &inner[..inner.len() - 1]);
        assert!(!parse_tree(&bad).errors.is_empty());
        bad.clear();
        // largesize
        let mut ls = vec![0, 0, 0, 1];
        ls.extend_from_slice(b"mdat");
        ls.extend_from_slice(&(20u64).to_be_bytes());
        ls.extend_from_slice(&[1, 2, 3, 4]);
        let t = parse_tree(&ls);
        assert!(t.errors.is_empty());
        assert_eq!(t.top[0].hdr, 16);
        assert_eq!(t.top[0].size, 20);
    }

    #[test]
    fn stsc_runs_and_co64_and_constant_stsz() {
        // 5 samples of size 10 in chunks: chunk1: 2 samples, chunk2..3: 1 sample, chunk 4: 1 sample
        let mut t = Track::default();
        t.sizes = vec![10; 5];
        t.chunk_offsets = vec![100, 200, 300, 400];
        t.stsc = vec![(1, 2, 1), (2, 1, 1)];
        t.stts = vec![(5, 7)];
        t.ctts = Some((1, vec![(2, -3), (3, 4)]));
        t.stss = Some(vec![1, 4]);
        let mut e = Vec::new();
        resolve_samples(&mut t, &mut e);
        assert!(e.is_empty(), "{:?}", e);
        let offs: Vec<u64> = t.samples.iter().map(|s| s.offset).collect();
        assert_eq!(offs, vec![100, 110, 200, 300, 400]);
        assert_eq!(t.samples[4].dts, 28);
        assert_eq!(t.samples[1].cts_off, -3);
        assert!(t.samples[3].sync && !t.samples[2].sync);
    }
}

#[cfg(test)]
mod fragment_tests {
    use super::*;

    fn bx(t: &[u8; 4], p: &[u8]) -> Vec<u8> {
        let mut v = ((8 + p.len()) as u32).to_be_bytes().to_vec();
        v.extend_from_slice(t);
        v.extend_from_slice(p);
        v
    }

    /// A fragment in a form muxide never writes: tfhd with default duration/size/flags, two truns,
    /// the first without per-sample fields (all defaulted) but with first_sample_flags, the second
    /// version 0 with explicit sizes; tfdt version 0.
    #[test]
    fn tfhd_defaults_first_sample_flags_two_truns() {
        let mfhd = bx(b"mfhd", &[0, 0, 0, 0, 0, 0, 0, 7]);
        let mut tfhd_p = vec![0, 0x02, 0x00, 0x38]; // default-base-is-moof | dur | size | flags
        tfhd_p.extend_from_slice(&1u32.to_be_bytes());
        tfhd_p.extend_from_slice(&3000u32.to_be_bytes());
        tfhd_p.extend_from_slice(&4u32.to_be_bytes());
        tfhd_p.extend_from_slice(&0x0101_0000u32.to_be_bytes());
        let tfhd = bx(b"tfhd", &tfhd_p);
        let tfdt = bx(b"tfdt", &[0, 0, 0, 0, 0, 0, 0x27, 0x10]);
        // trun 1: data_offset + first_sample_flags, 2 samples, everything else defaulted
        let mut t1 = vec![0, 0, 0, 0x05];
        t1.extend_from_slice(&2u32.to_be_bytes());
        t1.extend_from_slice(&0u32.to_be_bytes()); // data offset patched below
        t1.extend_from_slice(&0x0200_0000u32.to_be_bytes());
        // trun 2: sizes only, 1 sample, continues after trun 1
        let mut t2 = vec![0, 0, 0x02, 0x00];
        t2.extend_from_slice(&1u32.to_be_bytes());
        t2.extend_from_slice(&6u32.to_be_bytes());
        let mut traf_p = Vec::new();
        traf_p.extend_from_slice(&tfhd);
        traf_p.extend_from_slice(&tfdt);
        let t1_off_in_traf = traf_p.len();
        traf_p.extend_from_slice(&bx(b"trun", &t1));
        traf_p.extend_from_slice(&bx(b"trun", &t2));
        let mut moof_p = mfhd.clone();
        let traf_off = moof_p.len();
        moof_p.extend_from_slice(&bx(b"traf", &traf_p));
        let mut moof = bx(b"moof", &moof_p);
        let data_offset = (moof.len() + 8) as u32;
        let pos = 8 + traf_off + 8 + t1_off_in_traf + 8 + 8;
        moof[pos..pos + 4].copy_from_slice(&data_offset.to_be_bytes());
        let mut seg = moof.clone();
        seg.extend_from_slice(&bx(b"mdat", &[1, 1, 1, 1, 2, 2, 2, 2, 3, 3, 3, 3, 3, 3]));
        let tree = parse_tree(&seg);
        assert!(tree.errors.is_empty(), "{:?}", tree.errors);
        let f = parse_fragment(&seg, &tree, None);
        assert!(f.errors.is_empty(), "{:?}", f.errors);
        assert_eq!(f.sequence_number, 7);
        assert_eq!(f.base_decode_time, Some(10_000));
        assert_eq!(f.samples.len(), 3);
        assert_eq!(f.samples.iter().map(|s| s.size).collect::<Vec<_>>(), vec![4, 4, 6]);
        assert_eq!(f.samples.iter().map(|s| s.dur).collect::<Vec<_>>(), vec![3000, 3000, 3000]);
        assert_eq!(f.samples[0].flags, 0x0200_0000);
        assert_eq!(f.samples[1].flags, 0x0101_0000);
        let off0 = f.samples[0].offset as usize;
        assert_eq!(&seg[off0..off0 + 4], &[1, 1, 1, 1]);
        let off2 = f.samples[2].offset as usize;
        assert_eq!(&seg[off2..off2 + 6], &[3, 3, 3, 3, 3, 3]);
    }
}
