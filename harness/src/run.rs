//! Case generation (deterministic per index), evaluation (workload + monitor), shard runner.

use crate::exec::{run, run_frag, ExecOpts};
use crate::gen::frag::{gen_frag_history, FragOpts};
use crate::gen::hist::{gen_history, gen_history_for, GenOpts};
use crate::hist::*;
use crate::mon::{self, c07::Side, Analysis, Obs, Violation};
use crate::util::{mix, Rng};
use serde::{Deserialize, Serialize};
use std::collections::BTreeMap;
use std::sync::atomic::{AtomicU64, Ordering};
use std::sync::Arc;
use std::time::{Duration, Instant};

#[derive(Clone, Copy, Debug, PartialEq, Eq)]
pub enum Tier {
    Quick,
    Thorough,
}

#[derive(Serialize, Deserialize, Clone, Debug)]
pub enum Case {
    Hist { h: History, side: Side },
    Frag { h: FHistory, side: Side },
    Free(mon::c12::FreeOp),
    Fault { h: History, fault: crate::sink::Fault },
    FaultAll { h: History, level: u8 },
    Enum { what: String, lo: u64, hi: u64 },
    Adts {
        protection_absent: bool,
        delta: i32,
        lo: u32,
        hi: u32,
        #[serde(default)]
        mix: bool,
    },
    Threads { hs: Vec<History>, threads: u32, seed: u64 },
    Cli(mon::c20::CliCase),
    FuzzInput {
        #[serde(with = "crate::util::hexbytes")]
        data: Vec<u8>,
    },
}

impl Case {
    pub fn brief(&self) -> String {
        match self {
            Case::Hist { h, .. } => h.brief(),
            Case::Frag { h, .. } => h.brief(),
            Case::Free(f) => format!("{:?}", f).chars().take(200).collect(),
            Case::Fault { h, fault } => format!("{:?} on {}", fault, h.brief()),
            Case::FaultAll { h, level } => format!("all fault points (level {}) of {}", level, h.brief()),
            Case::Enum { what, lo, hi } => format!("enumerate {} [{}..{})", what, lo, hi),
            Case::Adts { protection_absent, delta, lo, hi, mix } => format!("ADTS frame lengths [{}..{}) protection_absent={} alternating={} buffer=len{:+}", lo, hi, protection_absent, mix, delta),
            Case::Threads { hs, threads, seed } => format!("{} histories on {} threads (schedule seed {})", hs.len(), threads, seed),
            Case::Cli(c) => c.brief(),
            Case::FuzzInput { data } => format!("fuzz input {}", crate::util::hex_short(data)),
        }
    }
    pub fn hash(&self) -> u64 {
        crate::util::fnv(serde_json::to_string(self).unwrap_or_default().as_bytes())
    }
}

pub fn prop_num(p: &str) -> u64 {
    p.trim_start_matches('C').parse().unwrap_or(0)
}

/// Per-property evaluation budget: (cases per run in total over all shards, time cap seconds).
pub fn budget(prop: &str, tier: Tier) -> (u64, u64) {
    let q = tier == Tier::Quick;
    match prop {
        "C01" => if q { (300_000, 50) } else { (4_000_000, 420) },
        "C02" => if q { (400_000, 50) } else { (4_000_000, 420) },
        "C03" => if q { (300_000, 50) } else { (4_000_000, 420) },
        "C04" => if q { (400_000, 50) } else { (1_500_000, 420) },
        "C05" => if q { (300_000, 50) } else { (4_000_000, 420) },
        "C06" => if q { (300_000, 50) } else { (4_000_000, 420) },
        "C07" => if q { (800_000, 50) } else { (4_000_000, 420) },
        "C08" => if q { (200_000, 50) } else { (3_000_000, 420) },
        "C09" => if q { (300_000, 50) } else { (4_000_000, 420) },
        "C10" => if q { (60_000, 50) } else { (1_500_000, 420) },
        "C11" => if q { (60_000, 50) } else { (1_500_000, 420) },
        "C12" => if q { (600_000, 50) } else { (4_000_000, 300) },
        "C13" => if q { (256, 50) } else { (2_560, 420) },
        "C14" => if q { (crate::run2::c14_enumeration_cases() + 3_000, 60) } else { (crate::run2::c14_enumeration_cases() + 150_000, 420) },
        "C15" => if q { (250_000, 50) } else { (3_000_000, 420) },
        "C16" => if q { (24_000, 50) } else { (100_000, 420) },
        "C17" => if q { (2_400, 50) } else { (40_000, 240) },
        "C18" => if q { (60_000, 50) } else { (1_000_000, 420) },
        "C19" => if q { (300_000, 50) } else { (2_000_000, 420) },
        "C20" => if q { (2_400, 50) } else { (100_000, 420) },
        _ => (1000, 30),
    }
}

fn rng_for(prop: &str, seed: u64, idx: u64) -> Rng {
    Rng::new(mix(mix(seed, prop_num(prop)), idx))
}

fn hist_case(h: History) -> Case {
    Case::Hist { h, side: Side::default() }
}

/// Deterministic case `idx` of property `prop`. None = enumeration exhausted.
pub fn gen_case(prop: &str, tier: Tier, seed: u64, idx: u64) -> Option<Case> {
    let mut r = rng_for(prop, seed, idx);
    let r = &mut r;
    let thorough = tier == Tier::Thorough;
    Some(match prop {
        "C01" | "C15" => {
            let mut o = GenOpts { hostile_pct: 4, reorder_pct: 40, audio_pct: 70, encode_pct: 8, round_count_pm: if prop == "C01" { 2 } else { 0 }, ..Default::default() };
            o.big_frames = r.chance(1, 5);
            if prop == "C15" {
                o.audio_pct = 100;
                o.reorder_pct = 25;
                o.max_audio = 40;
            }
            if thorough && r.chance(1, 200) {
                o.max_video = 400;
                o.max_audio = 600;
            }
            if r.chance(1, 60) {
                // several days of audio and video (positions beyond 2^32 ticks after the start)
                return Some(crate::run2::c16_case(r, 14));
            }
            hist_case(gen_history(r, &o))
        }
        "C02" => {
            if r.chance(1, 4) {
                let big = r.chance(1, 6);
                let (h, side) = gen_frag_history(r, &FragOpts { big, ..Default::default() });
                Case::Frag { h, side: Side { av1: side, vp9: None, op: 0 } }
            } else {
                let mut o = GenOpts { hostile_pct: 6, reorder_pct: 30, audio_pct: 60, meta_pct: 60, encode_pct: 10, finish_games: r.chance(1, 5), round_count_pm: 3, ..Default::default() };
                o.big_frames = r.chance(1, 8);
                if thorough && r.chance(1, 300) {
                    o.max_video = 3000;
                }
                hist_case(gen_history(r, &o))
            }
        }
        "C03" => {
            let mut o = GenOpts { hostile_pct: 2, reorder_pct: 45, audio_pct: 50, meta_pct: 10, encode_pct: 12, decorate: false, ..Default::default() };
            o.max_video = if r.chance(1, 40) { if thorough { 20_000 } else { 2_000 } } else { 40 };
            o.max_audio = if r.chance(1, 40) { 2_000 } else { 40 };
            if thorough && r.chance(1, 4000) {
                o.max_video = 100_000;
            }
            if r.chance(1, 30) {
                // tracks longer than 2^32 ticks (13.25 h): the 64-bit forms of the duration fields
                let sc = *r.pick(&[1u64, 2, 3, 4, 10]);
                return Some(crate::run2::c16_case(r, sc));
            }
            hist_case(gen_history(r, &o))
        }
        "C04" => {
            let o = GenOpts { hostile_pct: 35, reorder_pct: 30, audio_pct: 70, meta_pct: 5, encode_pct: 25, finish_games: true, consuming: false, max_video: 10, max_audio: 10, ..Default::default() };
            let mut cfg = crate::gen::hist::gen_cfg(r, &o);
            if r.chance(1, 40) {
                cfg.video = false;
            }
            if r.chance(1, 25) {
                // dimensions the sample entry cannot hold: every finish is refused, nothing else changes
                if r.chance(1, 2) {
                    cfg.width = *r.pick(&[65_536u32, 70_000, 100_000]);
                } else {
                    cfg.height = *r.pick(&[65_536u32, 70_000, 100_000]);
                }
            }
            crate::gen::frames::set_vp9_compact_pct(10);
            let h = gen_history_for(r, &o, cfg);
            crate::gen::frames::set_vp9_compact_pct(0);
            hist_case(h)
        }
        "C05" => {
            if r.chance(1, 5) {
                let (h, side) = gen_frag_history(r, &FragOpts { bad_dts_pct: 30, constant_interval_pct: 0, ..Default::default() });
                Case::Frag { h, side: Side { av1: side, vp9: None, op: 0 } }
            } else {
                let o = GenOpts { hostile_pct: 40, reorder_pct: 30, audio_pct: 75, meta_pct: 5, encode_pct: 20, finish_games: r.chance(1, 4), consuming: false, max_video: 10, max_audio: 12, ..Default::default() };
                hist_case(gen_history(r, &o))
            }
        }
        "C06" => {
            let mut o = GenOpts { hostile_pct: 8, hostile_cfg_pct: 4, reorder_pct: 40, audio_pct: 60, meta_pct: 20, encode_pct: 10, finish_games: r.chance(2, 3), max_video: 16, max_audio: 20, ..Default::default() };
            if r.chance(1, 8) {
                // longer recordings: what the statistics report must not depend on how far back
                // in decode order the deciding sample lies
                o.max_video = 120;
                o.max_audio = 160;
                o.reorder_pct = 70;
            }
            hist_case(gen_history(r, &o))
        }
        "C07" => return Some(mon_c07_case(r)),
        "C08" => {
            let mut o = GenOpts { hostile_pct: 5, reorder_pct: 35, audio_pct: 65, meta_pct: 70, encode_pct: 5, consuming: false, round_count_pm: 4, ..Default::default() };
            // some recordings with frames beyond 64 KiB, some long enough (and with enough equal
            // audio timestamps) for sorting / batching shortcuts to matter
            o.big_frames = r.chance(1, 8);
            if r.chance(1, 10) {
                o.max_video = 80;
                o.max_audio = 160;
            }
            let mut h = gen_history(r, &o);
            h.cfg.fast_start = Some(true);
            hist_case(h)
        }
        "C09" => {
            let o = GenOpts { hostile_pct: 10, reorder_pct: 40, audio_pct: 100, meta_pct: 10, encode_pct: 25, nonzero_start_pct: 50, max_video: 12, max_audio: 16, ..Default::default() };
            if r.chance(1, 40) {
                // one track longer than 2^32 ticks next to a short one (64-bit media headers)
                let sc = *r.pick(&[1u64, 10]);
                return Some(crate::run2::c16_case(r, sc));
            }
            let mut cfg = crate::gen::hist::gen_cfg(r, &o);
            if cfg.audio_effective().is_none() {
                cfg.audio = Some(AudioCfg { kind: 1, rate: 48_000, channels: 2 });
            }
            if r.chance(1, 25) {
                // high-resolution audio rates (beyond what the 16.16 sample-entry field holds)
                if let Some(a) = cfg.audio.as_mut() {
                    a.rate = *r.pick(&[88_200u32, 96_000, 176_400, 192_000]);
                }
            }
            hist_case(gen_history_for(r, &o, cfg))
        }
        "C10" | "C11" => {
            // now and then a recording of well over a thousand calls with hardly any flush
            // (fragments of many hundreds of samples)
            let long = r.chance(1, if thorough { 100 } else { 250 });
            let o = FragOpts { big: r.chance(1, 8), constant_interval_pct: if prop == "C11" { 45 } else { 15 }, max_ops: if long { 1500 } else { 50 }, long_fragments: long && r.chance(2, 3), ..Default::default() };
            let (mut h, side) = gen_frag_history(r, &o);
            if r.chance(1, 3000) {
                // a fragment of more than 65535 samples
                h.ops = crate::gen::frag::huge_fragment_ops(r);
            }
            Case::Frag { h, side: Side { av1: side, vp9: None, op: 0 } }
        }
        _ => return crate::run2::gen_case2(prop, tier, seed, idx, r),
    })
}

/// C07: first keyframes with known configuration, progressive or fragmented.
fn mon_c07_case(r: &mut Rng) -> Case {
    use crate::gen::frames::*;
    if r.chance(1, 4) {
        let (mut h, side) = gen_frag_history(r, &FragOpts { max_ops: 3, start_code_sets_pct: 5, ..Default::default() });
        h.ops = vec![FOp::Init];
        return Case::Frag { h, side: Side { av1: side, vp9: None, op: 0 } };
    }
    let o = GenOpts { audio_pct: 70, meta_pct: 10, hostile_cfg_pct: 0, ..Default::default() };
    let mut cfg = crate::gen::hist::gen_cfg(r, &o);
    // wider audio parameter pools
    if let Some(a) = cfg.audio.as_mut() {
        if a.kind != A_NONE {
            a.channels = *r.pick(&[1u16, 2, 3, 4, 5, 6, 7, 8, 2, 1]);
            a.rate = if a.is_opus() { *r.pick(&[48_000u32, 44_100, 8_000, 96_000]) } else { *r.pick(&[96_000u32, 88_200, 64_000, 48_000, 44_100, 32_000, 24_000, 22_050, 16_000, 12_000, 11_025, 8_000, 7_350, 65_535, 65_536, 37_800]) };
        }
    }
    cfg.width = *r.pick(&[1u32, 16, 640, 1920, 4096, 65_535]);
    cfg.height = *r.pick(&[1u32, 16, 480, 1080, 2160, 65_535]);
    if r.chance(1, 2) {
        cfg.width = r.any_dim();
        cfg.height = r.any_dim();
    }
    let mut side = Side::default();
    let body = small_len(r);
    let data = match cfg.vcodec {
        AV1 => {
            let f = av1_frame(r, FrameKind::KeyCfg, body);
            side.av1 = f.hdr;
            f.bytes
        }
        VP9 => {
            let (d, f) = vp9_frame(r, FrameKind::KeyCfg, body);
            side.vp9 = f;
            d
        }
        c if r.chance(1, 40) => {
            // the FIRST parameter set of one type is too long for its 16-bit length field and a
            // later one of the same type fits: the frame may be refused, but if it is accepted
            // the record must still carry the first one (never a silently substituted later one)
            let two = c == H265;
            let types: &[u8] = if two { &[32, 33, 34] } else { &[7, 8] };
            let big = *r.pick(types);
            let mk = |r: &mut Rng, t: u8, n: usize| -> Vec<u8> {
                let mut v = if two { vec![t << 1, 1] } else { vec![0x60 | t] };
                v.extend(r.bytes(n).into_iter().map(|b| b | 4));
                v
            };
            let mut d = Vec::new();
            for &t in types {
                if t == big {
                    let n = r.range(65_534, 66_000) as usize;
                    d.extend_from_slice(&[0, 0, 0, 1]);
                    d.extend(mk(r, t, n));
                }
                let n = r.range(4, 30) as usize;
                d.extend_from_slice(&[0, 0, 1]);
                d.extend(mk(r, t, n));
            }
            d.extend_from_slice(&[0, 0, 1]);
            d.extend(if two { vec![19 << 1, 1, 0xaa, 0xbb] } else { vec![0x65, 0x88, 0x84] });
            d
        }
        c if r.chance(1, 500) => {
            // a first keyframe of more than a mebibyte whose parameter sets come late: behind a
            // huge SEI / behind the slice, one of them possibly straddling the 1 MiB offset
            let two = c == H265;
            let types: &[u8] = if two { &[32, 33, 34] } else { &[7, 8] };
            let mk = |r: &mut Rng, t: u8, n: usize| -> Vec<u8> {
                let mut v = if two { vec![t << 1, 1] } else { vec![0x60 | t] };
                v.extend(r.bytes(n).into_iter().map(|b| b | 4));
                v
            };
            let n = (1usize << 20) - r.range(0, 60) as usize + if r.chance(1, 3) { 200 } else { 0 };
            let mut d = Vec::new();
            let slice_first = r.chance(1, 2);
            d.extend_from_slice(&[0, 0, 0, 1]);
            if slice_first {
                d.extend(mk(r, if two { 19 } else { 5 }, n));
            } else {
                d.extend(mk(r, if two { 39 } else { 6 }, n));
            }
            for &t in types {
                let n = r.range(4, 30) as usize;
                d.extend_from_slice(&[0, 0, 1]);
                d.extend(mk(r, t, n));
            }
            if !slice_first {
                d.extend_from_slice(&[0, 0, 1]);
                d.extend(if two { vec![19 << 1, 1, 0xaa, 0xbb] } else { vec![0x65, 0x88, 0x84] });
            }
            d
        }
        c => video_frame(r, c, FrameKind::KeyCfg, body, true),
    };
    // sometimes the real first keyframe is preceded by rejected attempts that carry OTHER
    // parameter sets: nothing of them may end up in the configuration record
    let mut ops: Vec<Op> = Vec::new();
    if r.chance(1, 3) {
        for _ in 0..r.range(1, 2) {
            let other = video_frame(r, cfg.vcodec, FrameKind::KeyCfg, 9, false);
            ops.push(match r.below(6) {
                0 => Op::wv(0.0, other, false),
                1 => Op::wv(f64::NAN, other, true),
                2 => Op::wv(-1.0, other, true),
                3 => Op::wvd(30_000.0, 0.0, other, true),
                4 => Op::wvd(0.0, 30_000.0, other, true),
                _ => Op::wvd(0.0, f64::INFINITY, other, true),
            });
        }
    }
    side.op = ops.len();
    ops.push(Op::wv(0.0, data, true));
    // a later keyframe with different parameter sets must not replace the configuration
    if r.chance(1, 3) {
        let d2 = video_frame(r, cfg.vcodec, FrameKind::KeyCfg, 8, false);
        ops.push(Op::wv(1.0 / 30.0, d2, true));
    }
    if let Some(a) = cfg.audio_effective() {
        if r.chance(1, 2) {
            ops.push(Op::wa(0.0, audio_frame(r, a, 8)));
        }
    }
    ops.push(Op::Finish(FinishKind::InPlaceStats));
    Case::Hist { h: History { cfg, ops }, side }
}

pub fn nontrivial_hist(a: &Analysis) -> bool {
    a.finished_ok() && a.ledger.video.len() >= 2 && (a.h.cfg.audio_effective().is_none() || a.ledger.audio.len() >= 2)
}

/// Evaluate one case for a property: run the real code, observe, decide.
pub fn eval_case(prop: &str, case: &Case, obs: &mut Obs) -> Vec<Violation> {
    obs.evaluations += 1;
    match (prop, case) {
        ("C01", Case::Hist { h, .. }) | ("C15", Case::Hist { h, .. }) | ("C03", Case::Hist { h, .. }) | ("C06", Case::Hist { h, .. }) | ("C09", Case::Hist { h, .. }) => {
            // C06: a fifth of the runs use a sink that shortens / interrupts writes without failing;
            // C06 and C01: some runs use a sink that fails ONE write call and then recovers, and
            // the caller retries finish (a retry must not produce a second, or a damaged, file).
            let hv = h.hash();
            let one_shot = crate::sink::Fault::FailWrite { k: ((hv >> 8) % 8) as usize, kind: ((hv >> 16) % crate::sink::KINDS.len() as u64) as usize };
            let mut retry_h;
            let mut h = h;
            let fault = if prop == "C06" {
                match hv % 10 {
                    0 => crate::sink::Fault::OneByte,
                    1 => crate::sink::Fault::Schedule { seed: hv, max_chunk: 7, interrupt_pct: 20 },
                    2 => one_shot,
                    _ => crate::sink::Fault::None,
                }
            } else if prop == "C01" && hv % 16 == 0 {
                one_shot
            } else if prop == "C01" && hv % 16 == 2 {
                // sinks that take fewer bytes than offered (any W: Write may): nothing may be lost
                crate::sink::Fault::OneByte
            } else if prop == "C01" && hv % 16 == 3 {
                crate::sink::Fault::Schedule { seed: hv, max_chunk: 9, interrupt_pct: 10 }
            } else {
                crate::sink::Fault::None
            };
            if matches!(fault, crate::sink::Fault::FailWrite { .. }) {
                obs.count("runs_with_one_failing_write_then_retry", 1);
                retry_h = h.clone();
                retry_h.ops.push(Op::Finish(FinishKind::InPlaceStats));
                retry_h.ops.push(Op::Finish(FinishKind::InPlace));
                h = &retry_h;
            } else if !matches!(fault, crate::sink::Fault::None) {
                obs.count("runs_with_short_writing_sink", 1);
            }
            // every fourth run copies each frame into one reused caller-side buffer first
            let (ex, sink) = if hv % 4 == 1 {
                obs.count("runs_with_a_reused_frame_buffer", 1);
                crate::exec::with_reused_buffer(|| crate::exec::run_fault(h, &ExecOpts::default(), fault))
            } else {
                crate::exec::run_fault(h, &ExecOpts::default(), fault)
            };
            if ex.any_panic() {
                obs.inconclusive += 1;
                obs.count("histories_ending_in_panic(C12's business)", 1);
                return vec![];
            }
            let (bytes, events) = sink.with(|s| (s.bytes.clone(), s.events.clone()));
            let a = Analysis::new(h, &ex, &bytes, &events);
            obs.set("cells", h.cfg.cell());
            obs.count("calls_observed", h.ops.len() as u64);
            let nt = match prop {
                "C09" | "C15" => a.finished_ok() && !a.ledger.video.is_empty() && a.ledger.audio.len() >= 2,
                "C06" => a.finished_ok() && !a.ledger.video.is_empty(),
                _ => nontrivial_hist(&a),
            };
            if nt {
                obs.nontrivial(h.hash());
                obs.sample(format!("{} -> {}", h.brief(), ex.results.last().map(|r| r.brief()).unwrap_or_default()));
            }
            match prop {
                "C01" => mon::c01::check(&a, obs),
                "C15" => mon::c15::check(&a, obs),
                "C03" => mon::c03::check(&a, obs),
                "C06" => mon::c06::check(&a, obs),
                _ => mon::c09::check(&a, obs),
            }
        }
        ("C02", Case::Hist { h, .. }) => {
            // 1 run in 16: a sink that fails one write call and recovers, finish retried (whatever
            // a finish that reports success leaves in the sink must be one well-formed file)
            let hv = h.hash();
            let mut retry_h;
            let mut h = h;
            let (ex, sink) = if hv % 16 == 0 {
                obs.count("runs_with_one_failing_write_then_retry", 1);
                retry_h = h.clone();
                retry_h.ops.push(Op::Finish(FinishKind::InPlaceStats));
                retry_h.ops.push(Op::Finish(FinishKind::InPlace));
                h = &retry_h;
                crate::exec::run_fault(h, &ExecOpts::default(), crate::sink::Fault::FailWrite { k: ((hv >> 8) % 8) as usize, kind: ((hv >> 16) % crate::sink::KINDS.len() as u64) as usize })
            } else if hv % 16 == 1 {
                // a sink that takes fewer bytes than offered (any W: Write may)
                obs.count("runs_with_short_writing_sink", 1);
                crate::exec::run_fault(h, &ExecOpts::default(), crate::sink::Fault::Schedule { seed: hv, max_chunk: 9, interrupt_pct: 10 })
            } else {
                run(h, &ExecOpts::default())
            };
            if ex.any_panic() {
                obs.inconclusive += 1;
                return vec![];
            }
            let (bytes, events) = sink.with(|s| (s.bytes.clone(), s.events.clone()));
            let a = Analysis::new(h, &ex, &bytes, &events);
            obs.set("cells", h.cfg.cell());
            if a.finished_ok() {
                obs.nontrivial(crate::util::fnv(&bytes));
                obs.sample(format!("{} -> {} bytes, top-level {:?}", h.brief(), bytes.len(), a.tree.top_types()));
            }
            mon::c02::check_file(&a, obs)
        }
        ("C02", Case::Frag { h, .. }) => {
            let ex = run_frag(h, &ExecOpts::default());
            let mut out = Vec::new();
            for (op, r) in h.ops.iter().zip(ex.results.iter()) {
                match (op, r) {
                    (FOp::Init, FRes::Bytes(b)) => {
                        out.extend(mon::c02::check_init(b, obs));
                        obs.nontrivial(crate::util::fnv(b));
                    }
                    (FOp::Flush, FRes::Seg(Some(b))) => {
                        out.extend(mon::c02::check_segment(b, obs).0);
                        obs.nontrivial(crate::util::fnv(b));
                    }
                    _ => {}
                }
                if !out.is_empty() {
                    break;
                }
            }
            obs.sample(h.brief());
            out
        }
        ("C04", Case::Hist { h, .. }) => {
            let (ex, _sink) = run(h, &ExecOpts::default());
            let rejected = ex.results.iter().filter(|r| r.is_err()).count();
            if rejected > 0 && ex.results.iter().any(|r| r.is_ok()) {
                obs.nontrivial(h.hash());
                obs.sample(format!("{} => {:?}", h.brief(), ex.results.iter().map(|r| r.brief()).collect::<Vec<_>>()));
            }
            obs.set("cells", h.cfg.cell());
            mon::c04::check(h, &ex, obs)
        }
        ("C05", Case::Hist { h, .. }) => {
            let (ex, sink) = run(h, &ExecOpts { snapshots: true, ..Default::default() });
            if ex.any_panic() {
                obs.inconclusive += 1;
                return vec![];
            }
            let rejected = h.ops.iter().zip(ex.results.iter()).filter(|(o, r)| o.is_frame_write() && r.is_err()).count();
            if rejected > 0 {
                obs.nontrivial(h.hash());
                obs.sample(format!("{} => {:?}", h.brief(), ex.results.iter().map(|r| r.brief()).collect::<Vec<_>>()));
            }
            let mut out = mon::c05::check_snapshots(h, &ex, obs);
            let bytes = sink.bytes();
            out.extend(mon::c05::check_differential(h, &ex, &bytes, obs));
            out
        }
        ("C05", Case::Frag { h, .. }) => {
            let ex = run_frag(h, &ExecOpts { snapshots: true, ..Default::default() });
            let mut out = Vec::new();
            let mut keep = Vec::new();
            let mut rejected = 0;
            for (i, (op, r)) in h.ops.iter().zip(ex.results.iter()).enumerate() {
                if let (FOp::Write { .. }, FRes::Err { .. }) = (op, r) {
                    rejected += 1;
                    if let (Some(b), Some(a)) = (&ex.snaps[i], &ex.snaps[i + 1]) {
                        obs.count("rejected_calls_snapshotted", 1);
                        if a != b {
                            out.push(Violation::new("C05", "state-changed|fragmented write_video|NonMonotonicDts", format!("op #{}: rejected write changed state: before {} after {}", i, b, a)));
                        }
                    }
                } else {
                    keep.push(i);
                }
            }
            if rejected > 0 {
                obs.nontrivial(h.hash());
                let h2 = FHistory { cfg: h.cfg.clone(), ops: keep.iter().map(|&i| h.ops[i].clone()).collect() };
                let ex2 = run_frag(&h2, &ExecOpts::default());
                obs.count("differential_pairs", 1);
                for (k, &i) in keep.iter().enumerate() {
                    if ex.results[i] != ex2.results[k] {
                        out.push(Violation::new("C05", "later-result-differs|fragmented", format!("op #{} {} differs once the rejected writes are removed", i, h.ops[i].brief())));
                        break;
                    }
                }
            }
            out
        }
        ("C07", Case::Hist { h, side }) => {
            let (ex, sink) = run(h, &ExecOpts::default());
            if ex.any_panic() {
                obs.inconclusive += 1;
                obs.count("histories_ending_in_panic(C12's business)", 1);
                return vec![];
            }
            let (bytes, events) = sink.with(|s| (s.bytes.clone(), s.events.clone()));
            let a = Analysis::new(h, &ex, &bytes, &events);
            if a.finished_ok() && !a.ledger.video.is_empty() {
                obs.nontrivial(h.hash());
                obs.sample(format!("{} side={}", h.brief(), if side.av1.is_some() { "av1 header struct" } else if side.vp9.is_some() { "vp9 fields" } else { "annex-b model" }));
            } else {
                obs.count("first_keyframe_not_accepted(C04's business)", 1);
            }
            obs.set("cells", h.cfg.cell());
            mon::c07::check_file(&a, side, obs)
        }
        ("C07", Case::Frag { h, side }) => {
            let ex = run_frag(h, &ExecOpts::default());
            let mut out = Vec::new();
            for r in &ex.results {
                if let FRes::Bytes(b) = r {
                    obs.nontrivial(crate::util::fnv(b));
                    obs.sample(h.brief());
                    out.extend(mon::c07::check_init(b, &h.cfg, side, obs));
                }
            }
            out
        }
        ("C08", Case::Hist { h, .. }) => {
            let mut hf = h.clone();
            hf.cfg.fast_start = Some(true);
            let mut hs = h.clone();
            hs.cfg.fast_start = Some(false);
            // 1 recording in 10: both layouts go to a sink that takes fewer bytes than offered and
            // reports Interrupted now and then (any W: Write may)
            let hv = h.hash();
            let short = hv % 10 == 0;
            if short {
                obs.count("pairs_with_short_writing_sink", 1);
            }
            let go = |hh: &History| {
                if short {
                    crate::exec::run_fault(hh, &ExecOpts::default(), crate::sink::Fault::Schedule { seed: hv, max_chunk: 1 + ((hv >> 8) % 97) as usize, interrupt_pct: 10 })
                } else {
                    run(hh, &ExecOpts::default())
                }
            };
            let (e1, s1) = go(&hf);
            let (e2, s2) = go(&hs);
            if e1.any_panic() != e2.any_panic() {
                // the same calls end in a panic under one layout only: the layouts do not describe
                // the same movie (a panic under both is C12's business)
                let which = if e1.any_panic() { "fast-start" } else { "standard" };
                return vec![Violation::new("C08", format!("one-layout-panics|{}", which), format!("{}: only the {} run panicked: {:?}", h.brief(), which, e1.results.iter().chain(e2.results.iter()).find(|r| matches!(r, Res::Panic { .. })).map(|r| r.brief())))];
            }
            if e1.any_panic() {
                obs.inconclusive += 1;
                return vec![];
            }
            let (b1, ev1) = s1.with(|s| (s.bytes.clone(), s.events.clone()));
            let (b2, ev2) = s2.with(|s| (s.bytes.clone(), s.events.clone()));
            let a1 = Analysis::new(&hf, &e1, &b1, &ev1);
            let a2 = Analysis::new(&hs, &e2, &b2, &ev2);
            if nontrivial_hist(&a1) {
                obs.nontrivial(h.hash());
                obs.sample(format!("{} -> fast {:?} / standard {:?}", h.brief(), a1.tree.top_types(), a2.tree.top_types()));
            }
            obs.set("cells", h.cfg.cell());
            mon::c08::check(&a1, &a2, obs)
        }
        ("C10", Case::Frag { h, .. }) | ("C11", Case::Frag { h, .. }) => {
            // (a state snapshot is taken before every call and renders + hashes the whole pending
            // queue: its cost is the sum over calls of the bytes queued at that moment. Not for
            // fragments of tens of thousands of samples, nor for hundreds of queued 64 KiB samples)
            let snapshot_cost: u128 = {
                let (mut queued, mut total) = (0u128, 0u128);
                for op in &h.ops {
                    total += queued + 64;
                    match op {
                        FOp::Write { data, .. } => queued += data.len() as u128 + 64,
                        FOp::Flush => queued = 0,
                        _ => {}
                    }
                }
                total
            };
            let snapshots = h.ops.len() < 20_000 && snapshot_cost < 1_500_000_000;
            if !snapshots {
                obs.count("histories_run_without_state_snapshots(cost)", 1);
            }
            let ex = run_frag(h, &ExecOpts { snapshots, ..Default::default() });
            if ex.results.iter().any(|r| matches!(r, FRes::Panic { .. })) {
                obs.inconclusive += 1;
                obs.count("histories_ending_in_panic(C12's business)", 1);
                return vec![];
            }
            let segs = ex.results.iter().filter(|r| matches!(r, FRes::Seg(Some(_)))).count();
            if segs >= 1 {
                obs.nontrivial(h.hash());
                obs.sample(h.brief());
            }
            obs.count("ops_observed", h.ops.len() as u64);
            if prop == "C10" {
                mon::c10::check(h, &ex, obs)
            } else {
                mon::c11::check(h, &ex, obs)
            }
        }
        _ => crate::run2::eval_case2(prop, case, obs),
    }
}

// ---------------------------------------------------------------------------------------------
// Shard runner
// ---------------------------------------------------------------------------------------------

#[derive(Serialize, Deserialize, Clone, Debug)]
pub struct ViolRec {
    pub sig: String,
    pub count: u64,
    pub detail: String,
    pub case: Case,
}

#[derive(Serialize, Deserialize, Clone, Debug, Default)]
pub struct ShardResult {
    pub prop: String,
    pub shard: u32,
    pub evaluations: u64,
    pub cases: u64,
    pub inconclusive: u64,
    pub counters: BTreeMap<String, u64>,
    pub sets: BTreeMap<String, Vec<String>>,
    pub samples: Vec<String>,
    pub nontrivial: u64,
    pub violations: Vec<ViolRec>,
    pub wall_s: f64,
    pub stopped_by: String,
    pub next_index: u64,
    pub exhausted: bool,
    /// the case budget this process was started with (lets the driver resume a stalled shard)
    #[serde(default)]
    pub max_cases: u64,
}

pub struct ShardArgs {
    pub prop: String,
    pub tier: Tier,
    pub seed: u64,
    pub shard: u32,
    pub nshards: u32,
    pub start_index: u64,
    pub max_cases: u64,
    pub budget: Duration,
    /// case indices not to evaluate (hang / slow candidates the driver has taken over)
    pub skip: Vec<u64>,
    /// write `<path>.partial` (+ `.partial.hashes`) every few seconds so that a process stopped by
    /// the watchdog does not lose what it had observed
    pub checkpoint: Option<String>,
}

/// Shared with the watchdog thread: index of the case being evaluated + heartbeat.
pub struct Progress {
    pub current: AtomicU64,
    pub beat: AtomicU64,
}

pub fn run_shard(a: &ShardArgs, progress: Option<Arc<Progress>>) -> (ShardResult, Vec<u64>) {
    let start = Instant::now();
    let mut obs = Obs::default();
    let mut viols: BTreeMap<String, ViolRec> = BTreeMap::new();
    let mut k = a.start_index;
    let mut cases = 0u64;
    let mut stopped_by = "count";
    let mut exhausted = false;
    let mut last_ckpt = Instant::now();
    let reverse = std::env::var("VH_REVERSE").is_ok() && a.max_cases < u64::MAX / 4;
    if let (Ok(v), true) = (std::env::var("VH_PRELUDE"), a.prop == "C17") {
        mon::c17::prelude(if v == "2" { 2 } else { 1 });
    }
    let snapshot = |obs: &Obs, viols: &BTreeMap<String, ViolRec>, cases: u64, k: u64, stopped_by: &str, exhausted: bool| -> (ShardResult, Vec<u64>) {
        let hashes: Vec<u64> = obs.nontrivial.iter().copied().collect();
        let res = ShardResult {
            prop: a.prop.clone(),
            shard: a.shard,
            evaluations: obs.evaluations,
            cases,
            inconclusive: obs.inconclusive,
            counters: obs.counters.clone(),
            sets: obs.sets.iter().map(|(k, v)| (k.clone(), v.iter().cloned().collect())).collect(),
            samples: obs.samples.clone(),
            nontrivial: hashes.len() as u64,
            violations: viols.values().cloned().collect(),
            wall_s: start.elapsed().as_secs_f64(),
            stopped_by: stopped_by.to_string(),
            next_index: k,
            exhausted,
            max_cases: a.max_cases,
        };
        (res, hashes)
    };
    loop {
        if cases >= a.max_cases {
            break;
        }
        if start.elapsed() >= a.budget {
            stopped_by = "time";
            break;
        }
        // case index space is striped over shards (VH_REVERSE: the same index range, last first —
        // used to show that results do not depend on what ran earlier in the process)
        let kk = if reverse { a.start_index + (a.max_cases - 1 - cases) } else { k };
        let idx = kk * a.nshards as u64 + a.shard as u64;
        if a.skip.contains(&idx) {
            k += 1;
            cases += 1;
            continue;
        }
        if let Some(path) = &a.checkpoint {
            if last_ckpt.elapsed() >= Duration::from_secs(2) {
                let (res, hashes) = snapshot(&obs, &viols, cases, k, "watchdog", false);
                write_result(&format!("{}.partial", path), &res, &hashes);
                last_ckpt = Instant::now();
            }
        }
        if let Some(p) = &progress {
            p.current.store(idx, Ordering::SeqCst);
            p.beat.fetch_add(1, Ordering::SeqCst);
        }
        let Some(case) = gen_case(&a.prop, a.tier, a.seed, idx) else {
            exhausted = true;
            stopped_by = "exhausted";
            break;
        };
        let vs = eval_case(&a.prop, &case, &mut obs);
        for v in vs {
            let key = format!("{}|{}", v.prop, v.sig);
            match viols.get_mut(&key) {
                Some(r) => r.count += 1,
                None => {
                    viols.insert(key, ViolRec { sig: format!("{}|{}", v.prop, v.sig), count: 1, detail: v.detail, case: case.clone() });
                }
            }
        }
        k += 1;
        cases += 1;
    }
    if let Some(p) = &progress {
        p.current.store(u64::MAX, Ordering::SeqCst);
        p.beat.fetch_add(1, Ordering::SeqCst);
    }
    let (res, hashes) = snapshot(&obs, &viols, cases, k, stopped_by, exhausted);
    (res, hashes)
}

/// Result file + its hash side file, written atomically (tmp + rename).
pub fn write_result(path: &str, res: &ShardResult, hashes: &[u64]) {
    let mut hb = Vec::with_capacity(hashes.len() * 8);
    for h in hashes {
        hb.extend_from_slice(&h.to_le_bytes());
    }
    let put = |p: String, bytes: &[u8]| {
        let tmp = format!("{}.tmp", p);
        if std::fs::write(&tmp, bytes).is_ok() {
            let _ = std::fs::rename(&tmp, &p);
        }
    };
    put(format!("{}.hashes", path), &hb);
    put(path.to_string(), serde_json::to_string(res).unwrap().as_bytes());
}
