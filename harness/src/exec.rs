//! Executes histories against the real library at its public boundary, recording results.

use crate::hist::*;
use crate::sink::RecSink;
use crate::util::bf;
use muxide::api::{
    AacProfile, AudioCodec, Metadata, Muxer, MuxerBuilder, MuxerError, MuxerStats, VideoCodec,
};
use muxide::codec::vp9::Vp9Config;
use muxide::fragmented::{FragmentConfig, FragmentedError, FragmentedMuxer};
use std::cell::{Cell, RefCell};
use std::io::Write;
use std::panic::{catch_unwind, AssertUnwindSafe};

thread_local! {
    static LAST_PANIC: RefCell<Option<(String, String)>> = const { RefCell::new(None) };
    static IN_GUARD: Cell<bool> = const { Cell::new(false) };
}

/// Install a process-wide panic hook that records (message, location) for guarded calls and
/// stays silent for them; unguarded panics (harness bugs) are printed as usual.
pub fn install_panic_hook() {
    std::panic::set_hook(Box::new(|info| {
        let msg = if let Some(s) = info.payload().downcast_ref::<&str>() {
            s.to_string()
        } else if let Some(s) = info.payload().downcast_ref::<String>() {
            s.clone()
        } else {
            "<non-string panic payload>".to_string()
        };
        let loc = info
            .location()
            .map(|l| format!("{}:{}", l.file(), l.line()))
            .unwrap_or_else(|| "?".into());
        if IN_GUARD.with(|g| g.get()) {
            LAST_PANIC.with(|p| *p.borrow_mut() = Some((msg, loc)));
        } else {
            eprintln!("HARNESS PANIC at {}: {}", loc, msg);
        }
    }));
}

/// Run `f`, converting a panic into Err((message, location)).
pub fn guard<R>(f: impl FnOnce() -> R) -> Result<R, (String, String)> {
    let prev = IN_GUARD.with(|g| g.replace(true));
    let r = catch_unwind(AssertUnwindSafe(f));
    IN_GUARD.with(|g| g.set(prev));
    match r {
        Ok(v) => Ok(v),
        Err(_) => Err(LAST_PANIC
            .with(|p| p.borrow_mut().take())
            .unwrap_or_else(|| ("<unknown panic>".into(), "?".into()))),
    }
}

pub fn vcodec(c: u8) -> VideoCodec {
    match c {
        H264 => VideoCodec::H264,
        H265 => VideoCodec::H265,
        AV1 => VideoCodec::Av1,
        _ => VideoCodec::Vp9,
    }
}

pub fn acodec(k: u8) -> AudioCodec {
    match k {
        1 => AudioCodec::Aac(AacProfile::Lc),
        2 => AudioCodec::Aac(AacProfile::Main),
        3 => AudioCodec::Aac(AacProfile::Ssr),
        4 => AudioCodec::Aac(AacProfile::Ltp),
        5 => AudioCodec::Aac(AacProfile::He),
        6 => AudioCodec::Aac(AacProfile::Hev2),
        7 => AudioCodec::Opus,
        _ => AudioCodec::None,
    }
}

fn fbits(x: f64) -> String {
    format!("{:016x}", x.to_bits())
}

pub fn classify(e: &MuxerError) -> ErrInfo {
    use ErrClass as C;
    let (variant, class, detail, io_kind): (&str, C, String, Option<String>) = match e {
        MuxerError::MissingVideoConfig => ("MissingVideoConfig", C::MissingVideoConfig, String::new(), None),
        MuxerError::Io(err) => {
            let is_gap = err.kind() == std::io::ErrorKind::InvalidData
                && err.to_string().contains("duration overflow");
            (
                "Io",
                if is_gap { C::GapOverflow } else { C::Io },
                format!("{:?}:{}", err.kind(), err),
                Some(format!("{:?}", err.kind())),
            )
        }
        MuxerError::AlreadyFinished => ("AlreadyFinished", C::Finished, String::new(), None),
        MuxerError::NegativeVideoPts { pts, frame_index } => (
            "NegativeVideoPts",
            C::NegativeVideoPts,
            format!("pts={} idx={}", fbits(*pts), frame_index),
            None,
        ),
        MuxerError::NegativeVideoDts { dts, frame_index } => (
            "NegativeVideoDts",
            C::NegativeVideoDts,
            format!("dts={} idx={}", fbits(*dts), frame_index),
            None,
        ),
        MuxerError::InvalidVideoPts { pts, frame_index } => (
            "InvalidVideoPts",
            C::NonFiniteVideoPts,
            format!("pts={} idx={}", fbits(*pts), frame_index),
            None,
        ),
        MuxerError::InvalidVideoDts { dts, frame_index } => (
            "InvalidVideoDts",
            C::NonFiniteVideoDts,
            format!("dts={} idx={}", fbits(*dts), frame_index),
            None,
        ),
        MuxerError::NegativeAudioPts { pts, frame_index } => (
            "NegativeAudioPts",
            C::NegativeAudioPts,
            format!("pts={} idx={}", fbits(*pts), frame_index),
            None,
        ),
        MuxerError::InvalidAudioPts { pts, frame_index } => (
            "InvalidAudioPts",
            C::NonFiniteAudioPts,
            format!("pts={} idx={}", fbits(*pts), frame_index),
            None,
        ),
        MuxerError::AudioNotConfigured => ("AudioNotConfigured", C::AudioNotConfigured, String::new(), None),
        MuxerError::EmptyAudioFrame { frame_index } => {
            ("EmptyAudioFrame", C::EmptyAudio, format!("idx={}", frame_index), None)
        }
        MuxerError::EmptyVideoFrame { frame_index } => {
            ("EmptyVideoFrame", C::EmptyVideo, format!("idx={}", frame_index), None)
        }
        MuxerError::NonIncreasingVideoPts { prev_pts, curr_pts, frame_index } => (
            "NonIncreasingVideoPts",
            C::VideoOrdering,
            format!("prev={} curr={} idx={}", fbits(*prev_pts), fbits(*curr_pts), frame_index),
            None,
        ),
        MuxerError::DecreasingAudioPts { prev_pts, curr_pts, frame_index } => (
            "DecreasingAudioPts",
            C::AudioOrdering,
            format!("prev={} curr={} idx={}", fbits(*prev_pts), fbits(*curr_pts), frame_index),
            None,
        ),
        MuxerError::AudioBeforeFirstVideo { audio_pts, first_video_pts } => (
            "AudioBeforeFirstVideo",
            C::AudioBeforeVideo,
            format!("apts={} first={:?}", fbits(*audio_pts), first_video_pts.map(fbits)),
            None,
        ),
        MuxerError::FirstVideoFrameMustBeKeyframe => {
            ("FirstVideoFrameMustBeKeyframe", C::FirstNotKey, String::new(), None)
        }
        MuxerError::FirstVideoFrameMissingSpsPps => {
            ("FirstVideoFrameMissingSpsPps", C::FirstMissingConfig, String::new(), None)
        }
        MuxerError::FirstAv1FrameMissingSequenceHeader => {
            ("FirstAv1FrameMissingSequenceHeader", C::FirstMissingConfig, String::new(), None)
        }
        MuxerError::FirstVp9FrameMissingSequenceHeader => {
            ("FirstVp9FrameMissingSequenceHeader", C::FirstMissingConfig, String::new(), None)
        }
        MuxerError::InvalidAdts { frame_index } => {
            ("InvalidAdts", C::AdtsFraming, format!("idx={}", frame_index), None)
        }
        MuxerError::InvalidAdtsDetailed { frame_index, error } => (
            "InvalidAdtsDetailed",
            C::AdtsFraming,
            // the whole returned value counts (expected / found texts, hex dump, suggestions,
            // related errors): kind and offset in clear, everything else as a hash of the Debug
            // and Display renderings
            format!("idx={} kind={:?} off={} full={:016x}", frame_index, error.kind, error.byte_offset, crate::util::fnv(format!("{:?}|{}", e, e).as_bytes())),
            None,
        ),
        MuxerError::InvalidOpusPacket { frame_index } => {
            ("InvalidOpusPacket", C::OpusFraming, format!("idx={}", frame_index), None)
        }
        MuxerError::NonIncreasingDts { prev_dts, curr_dts, frame_index } => (
            "NonIncreasingDts",
            C::DtsOrdering,
            format!("prev={} curr={} idx={}", fbits(*prev_dts), fbits(*curr_dts), frame_index),
            None,
        ),
    };
    ErrInfo { variant: variant.to_string(), class, detail, io_kind }
}

fn stats_of(s: MuxerStats) -> Stats {
    Stats {
        video_frames: s.video_frames,
        audio_frames: s.audio_frames,
        duration_bits: s.duration_secs.to_bits(),
        bytes_written: s.bytes_written,
    }
}

fn res_unit(r: Result<Result<(), MuxerError>, (String, String)>) -> Res {
    match r {
        Ok(Ok(())) => Res::Ok,
        Ok(Err(e)) => Res::Err(classify(&e)),
        Err((msg, loc)) => Res::Panic { msg, loc },
    }
}

fn res_stats(r: Result<Result<MuxerStats, MuxerError>, (String, String)>) -> Res {
    match r {
        Ok(Ok(s)) => Res::OkStats(stats_of(s)),
        Ok(Err(e)) => Res::Err(classify(&e)),
        Err((msg, loc)) => Res::Panic { msg, loc },
    }
}

pub fn metadata_of(cfg: &Cfg) -> Option<Metadata> {
    if !cfg.meta {
        return None;
    }
    let mut m = Metadata::new();
    // path bit 32: the chainable setters in the opposite order (title last); every setter
    // touches its own field only
    let title_last = (cfg.path & 32) != 0;
    if !title_last {
        if let Some(t) = &cfg.title {
            m = m.with_title(t.clone());
        }
    }
    if (cfg.path & 4) == 0 {
        if title_last {
            if let Some(l) = &cfg.lang {
                m = m.with_language(l.clone());
            }
            if let Some(c) = cfg.ctime {
                m = m.with_creation_time(c);
            }
        } else {
            if let Some(c) = cfg.ctime {
                m = m.with_creation_time(c);
            }
            if let Some(l) = &cfg.lang {
                m = m.with_language(l.clone());
            }
        }
    }
    if title_last {
        if let Some(t) = &cfg.title {
            m = m.with_title(t.clone());
        }
    }
    Some(m)
}

pub fn builder_of<W>(w: W, cfg: &Cfg) -> MuxerBuilder<W> {
    let mut b = MuxerBuilder::new(w);
    // path bit 16: the independent settings (fast start, metadata) are given BEFORE the tracks
    let settings_first = (cfg.path & 16) != 0;
    if settings_first {
        b = settings_of(b, cfg);
    }
    // path bit 8: every setter is first called with a decoy (another codec, other numbers, even
    // invalid ones) and then with the real configuration: the last call wins
    let decoy = (cfg.path & 8) != 0;
    if cfg.video {
        let fps = bf(cfg.fps_bits);
        if decoy {
            b = b.video(vcodec((cfg.vcodec + 1) % 4), 1, 65_536, 1.0);
        }
        b = if (cfg.path & 1) != 0 {
            b.set_video_track(vcodec(cfg.vcodec), cfg.width, cfg.height, fps)
        } else {
            b.video(vcodec(cfg.vcodec), cfg.width, cfg.height, fps)
        };
    }
    if let Some(a) = &cfg.audio {
        if decoy {
            b = if a.is_opus() {
                b.audio(acodec(1), 44_100, 2)
            } else if a.is_aac() {
                b.set_audio_track(acodec(A_OPUS), 48_000, 300)
            } else {
                b.audio(acodec(1), 48_000, 2)
            };
        }
        b = if (cfg.path & 2) != 0 {
            b.set_audio_track(acodec(a.kind), a.rate, a.channels)
        } else {
            b.audio(acodec(a.kind), a.rate, a.channels)
        };
    }
    if !settings_first {
        b = settings_of(b, cfg);
    }
    b
}

fn settings_of<W>(mut b: MuxerBuilder<W>, cfg: &Cfg) -> MuxerBuilder<W> {
    if (cfg.path & 8) != 0 && cfg.meta {
        // decoy: an earlier with_metadata() call whose every field differs; the later call replaces it
        b = b.with_metadata(Metadata::new().with_title("decoy title").with_creation_time(86_400).with_language("zzz"));
    }
    if let Some(m) = metadata_of(cfg) {
        b = b.with_metadata(m);
    }
    if (cfg.path & 4) != 0 {
        if (cfg.path & 8) != 0 {
            // decoy setter calls first: the last call of each setter wins
            if cfg.ctime.is_some() {
                b = b.set_create_time(86_400);
            }
            if cfg.lang.is_some() {
                b = b.set_language("zzz");
            }
        }
        if let Some(c) = cfg.ctime {
            b = b.set_create_time(c);
        }
        if let Some(l) = &cfg.lang {
            b = b.set_language(l.clone());
        }
    }
    if let Some(fs) = cfg.fast_start {
        b = b.with_fast_start(fs);
    }
    b
}

#[derive(Clone, Debug, Default)]
pub struct ExecOpts {
    pub snapshots: bool,
    pub casts: bool,
    /// also exercise Display / Debug / source / JSON of every returned error (inside the guard)
    pub render_errors: bool,
}

/// Exercise every public rendering of an error value.
pub fn render_error(e: &MuxerError) {
    let _ = format!("{}", e);
    let _ = format!("{:#}", e);
    let _ = format!("{:?}", e);
    let _ = std::error::Error::source(e);
    if let MuxerError::InvalidAdtsDetailed { error, .. } = e {
        let _ = error.to_json();
        let _ = error.to_json_compact();
        let _ = error.is_critical();
        let _ = error.all_errors().len();
        let _ = format!("{}", error);
        let _ = format!("{:#}", error);
    }
}

fn rr<T>(render: bool, r: Result<T, MuxerError>) -> Result<T, MuxerError> {
    if render {
        if let Err(e) = &r {
            render_error(e);
        }
    }
    r
}

#[derive(Clone, Debug)]
pub struct CastEv {
    pub op: usize,
    pub site: String,
    pub value: i128,
    pub bits: u32,
    pub signed: bool,
    pub fits: bool,
}

#[derive(Clone, Debug)]
pub struct Exec {
    pub build: Res,
    pub results: Vec<Res>,
    /// when enabled: snaps[i] = state before op i (i < n) ; snaps[n] = final state (if muxer alive)
    pub snaps: Vec<Option<String>>,
    pub casts: Vec<CastEv>,
}

impl Exec {
    pub fn first_panic(&self) -> Option<(usize, &Res)> {
        self.results.iter().enumerate().find(|(_, r)| r.is_panic())
    }
    pub fn any_panic(&self) -> bool {
        self.build.is_panic() || self.results.iter().any(|r| r.is_panic())
    }
    /// index of the first finish op that returned Ok
    pub fn first_ok_finish(&self, h: &History) -> Option<usize> {
        h.ops
            .iter()
            .zip(self.results.iter())
            .position(|(o, r)| o.is_finish() && r.is_ok())
    }
}

fn drain_casts(op: usize, out: &mut Vec<CastEv>, enabled: bool) {
    let evs = muxide::verif::drain_casts();
    if enabled {
        for e in evs {
            out.push(CastEv {
                op,
                site: e.site.to_string(),
                value: e.value,
                bits: e.bits,
                signed: e.signed,
                fits: e.fits,
            });
        }
    }
}

thread_local! {
    /// When set, every frame is copied into ONE caller-side buffer before the call (as a capture
    /// loop that reuses its buffer does): consecutive frames of equal length then share address
    /// and length, which must not matter to the library.
    static REUSE_BUFFER: std::cell::Cell<bool> = const { std::cell::Cell::new(false) };
    static SCRATCH: std::cell::RefCell<Vec<u8>> = std::cell::RefCell::new(Vec::with_capacity(1 << 20));
}

/// Run `f` with the caller-side buffer reuse switched on for this thread.
pub fn with_reused_buffer<R>(f: impl FnOnce() -> R) -> R {
    let prev = REUSE_BUFFER.with(|c| c.replace(true));
    let r = f();
    REUSE_BUFFER.with(|c| c.set(prev));
    r
}

/// Apply one operation to a (possibly already consumed) muxer.
pub fn apply_op<W: Write>(mux: &mut Option<Muxer<W>>, op: &Op, rd: bool) -> Res {
    if REUSE_BUFFER.with(|c| c.get()) {
        if let Some(d) = op.data() {
            return SCRATCH.with(|s| {
                let mut s = s.borrow_mut();
                s.clear();
                s.extend_from_slice(d);
                apply_op_with(mux, op, rd, Some(&s[..]))
            });
        }
    }
    apply_op_with(mux, op, rd, None)
}

fn apply_op_with<W: Write>(mux: &mut Option<Muxer<W>>, op: &Op, rd: bool, buf: Option<&[u8]>) -> Res {
    let Some(m) = mux.as_mut() else {
        return Res::Skipped;
    };
    match op {
        Op::WriteVideo { pts, data, key } => res_unit(guard(|| rr(rd, m.write_video(bf(*pts), buf.unwrap_or(data), *key)))),
        Op::WriteVideoDts { pts, dts, data, key } => res_unit(guard(|| rr(rd, m.write_video_with_dts(bf(*pts), bf(*dts), buf.unwrap_or(data), *key)))),
        Op::WriteAudio { pts, data } => res_unit(guard(|| rr(rd, m.write_audio(bf(*pts), buf.unwrap_or(data))))),
        Op::EncodeVideo { data, dur_ms } => res_unit(guard(|| rr(rd, m.encode_video(buf.unwrap_or(data), *dur_ms)))),
        Op::EncodeAudio { data, samples } => res_unit(guard(|| rr(rd, m.encode_audio(buf.unwrap_or(data), *samples)))),
        Op::Finish(FinishKind::InPlace) => res_unit(guard(|| rr(rd, m.finish_in_place()))),
        Op::Finish(FinishKind::InPlaceStats) => res_stats(guard(|| rr(rd, m.finish_in_place_with_stats()))),
        Op::Finish(k) => {
            let owned = mux.take().unwrap();
            match k {
                FinishKind::Finish => res_unit(guard(move || rr(rd, owned.finish()))),
                FinishKind::FinishStats => res_stats(guard(move || rr(rd, owned.finish_with_stats()))),
                _ => res_unit(guard(move || rr(rd, owned.flush()))),
            }
        }
    }
}

/// Execute a history on a muxer writing to `w`. `set_seq` is invoked with the op index before each
/// call (so recording sinks can stamp their events).
pub fn run_on<W: Write>(w: W, h: &History, opts: &ExecOpts, set_seq: &dyn Fn(u32)) -> Exec {
    let n = h.ops.len();
    let mut ex = Exec {
        build: Res::Skipped,
        results: Vec::with_capacity(n),
        snaps: Vec::new(),
        casts: Vec::new(),
    };
    let _ = muxide::verif::drain_casts();
    set_seq(u32::MAX);
    let rd0 = opts.render_errors;
    let built = guard(|| rr(rd0, builder_of(w, &h.cfg).build()));
    let mut mux: Option<Muxer<W>> = match built {
        Ok(Ok(m)) => {
            ex.build = Res::Ok;
            Some(m)
        }
        Ok(Err(e)) => {
            ex.build = Res::Err(classify(&e));
            None
        }
        Err((msg, loc)) => {
            ex.build = Res::Panic { msg, loc };
            None
        }
    };
    for (i, op) in h.ops.iter().enumerate() {
        if opts.snapshots {
            ex.snaps.push(mux.as_ref().map(|m| m.verif_snapshot()));
        }
        if mux.is_none() {
            ex.results.push(Res::Skipped);
            continue;
        }
        set_seq(i as u32);
        let res = apply_op(&mut mux, op, opts.render_errors);
        drain_casts(i, &mut ex.casts, opts.casts);
        let panicked = res.is_panic();
        ex.results.push(res);
        if panicked {
            // the object may be in an arbitrary (memory-safe) state; stop using it
            mux = None;
        }
    }
    if opts.snapshots {
        ex.snaps.push(mux.as_ref().map(|m| m.verif_snapshot()));
    }
    set_seq(u32::MAX - 1);
    drop(mux);
    ex
}

/// Execute on a recording sink; returns the execution and the sink (bytes + events).
pub fn run(h: &History, opts: &ExecOpts) -> (Exec, RecSink) {
    run_fault(h, opts, crate::sink::Fault::None)
}

pub fn run_fault(h: &History, opts: &ExecOpts, fault: crate::sink::Fault) -> (Exec, RecSink) {
    let sink = RecSink::new(fault);
    let s2 = sink.clone();
    let ex = run_on(sink.clone(), h, opts, &move |q| s2.set_seq(q));
    (ex, sink)
}

// ---------------------------------------------------------------------------------------------
// Fragmented
// ---------------------------------------------------------------------------------------------

pub fn vp9_of(v: &[u32; 9]) -> Vp9Config {
    Vp9Config {
        width: v[0],
        height: v[1],
        profile: v[2] as u8,
        bit_depth: v[3] as u8,
        color_space: v[4] as u8,
        transfer_function: v[5] as u8,
        matrix_coefficients: v[6] as u8,
        level: v[7] as u8,
        full_range_flag: v[8] as u8,
    }
}

#[derive(Clone, Debug)]
pub struct FExec {
    /// Ok / Err(io-ish description) / Panic
    pub build: Res,
    pub results: Vec<FRes>,
    /// snaps[i] before op i; snaps[n] final
    pub snaps: Vec<Option<String>>,
    pub casts: Vec<CastEv>,
}

pub fn build_frag(c: &FragCfg) -> Result<Result<FragmentedMuxer, MuxerError>, (String, String)> {
    guard(|| {
        if c.via_builder {
            let track = |b: MuxerBuilder<Vec<u8>>, codec: u8| {
                if (c.path & 1) != 0 {
                    b.set_video_track(vcodec(codec), c.width, c.height, 30.0)
                } else {
                    b.video(vcodec(codec), c.width, c.height, 30.0)
                }
            };
            let params = |mut b: MuxerBuilder<Vec<u8>>| {
                if let Some(x) = &c.sps {
                    b = b.with_sps(x.clone());
                }
                if let Some(x) = &c.pps {
                    b = b.with_pps(x.clone());
                }
                if let Some(x) = &c.vps {
                    b = b.with_vps(x.clone());
                }
                if let Some(x) = &c.av1_seq {
                    b = b.with_av1_sequence_header(x.clone());
                }
                if let Some(x) = &c.vp9 {
                    b = b.with_vp9_config(vp9_of(x));
                }
                b
            };
            let mut b = MuxerBuilder::new(Vec::<u8>::new());
            if (c.path & 4) != 0 {
                b = track(b, (c.vcodec + 1) % 4);
            }
            if (c.path & 2) != 0 {
                b = params(b);
                b = track(b, c.vcodec);
            } else {
                b = track(b, c.vcodec);
                b = params(b);
            }
            if let Some(l) = &c.lang {
                b = b.set_language(l.clone());
            }
            b.new_with_fragment()
        } else {
            Ok(FragmentedMuxer::new(FragmentConfig {
                width: c.width,
                height: c.height,
                timescale: c.timescale,
                fragment_duration_ms: c.fragment_duration_ms,
                sps: c.sps.clone().unwrap_or_default(),
                pps: c.pps.clone().unwrap_or_default(),
                vps: c.vps.clone(),
                av1_sequence_header: c.av1_seq.clone(),
                vp9_config: c.vp9.as_ref().map(vp9_of),
            }))
        }
    })
}

pub fn run_frag(h: &FHistory, opts: &ExecOpts) -> FExec {
    let mut ex = FExec { build: Res::Skipped, results: Vec::new(), snaps: Vec::new(), casts: Vec::new() };
    let _ = muxide::verif::drain_casts();
    let mut mux: Option<FragmentedMuxer> = match build_frag(&h.cfg) {
        Ok(Ok(m)) => {
            ex.build = Res::Ok;
            Some(m)
        }
        Ok(Err(e)) => {
            ex.build = Res::Err(classify(&e));
            None
        }
        Err((msg, loc)) => {
            ex.build = Res::Panic { msg, loc };
            None
        }
    };
    for (i, op) in h.ops.iter().enumerate() {
        if opts.snapshots {
            ex.snaps.push(mux.as_ref().map(|m| m.verif_snapshot()));
        }
        let Some(m) = mux.as_mut() else {
            ex.results.push(FRes::Skipped);
            continue;
        };
        let r = match op {
            FOp::Write { pts, dts, data, sync } => {
                match guard(|| m.write_video(*pts, *dts, data, *sync)) {
                    Ok(Ok(())) => FRes::Ok,
                    Ok(Err(FragmentedError::NonMonotonicDts { prev_dts, curr_dts })) => {
                        FRes::Err { prev: prev_dts, curr: curr_dts }
                    }
                    Err((msg, loc)) => FRes::Panic { msg, loc },
                }
            }
            FOp::Flush => match guard(|| m.flush_segment()) {
                Ok(s) => FRes::Seg(s),
                Err((msg, loc)) => FRes::Panic { msg, loc },
            },
            FOp::Ready => match guard(|| m.ready_to_flush()) {
                Ok(b) => FRes::Bool(b),
                Err((msg, loc)) => FRes::Panic { msg, loc },
            },
            FOp::CurDur => match guard(|| m.current_fragment_duration_ms()) {
                Ok(b) => FRes::U64(b),
                Err((msg, loc)) => FRes::Panic { msg, loc },
            },
            FOp::Init => match guard(|| m.init_segment()) {
                Ok(b) => FRes::Bytes(b),
                Err((msg, loc)) => FRes::Panic { msg, loc },
            },
        };
        drain_casts(i, &mut ex.casts, opts.casts);
        let panicked = matches!(r, FRes::Panic { .. });
        ex.results.push(r);
        if panicked {
            mux = None;
        }
    }
    if opts.snapshots {
        ex.snaps.push(mux.as_ref().map(|m| m.verif_snapshot()));
    }
    ex
}
