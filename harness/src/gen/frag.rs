//! Generator of fragmented-muxer op sequences.

use crate::hist::*;
use crate::model::av1;
use crate::util::Rng;

#[derive(Clone, Debug)]
pub struct FragOpts {
    pub max_ops: usize,
    /// percent of writes with a dts lower than the previous (to be rejected)
    pub bad_dts_pct: u64,
    pub big: bool,
    pub hostile_cfg: bool,
    /// constant frame interval with >= 2 samples per segment (C11 clause)
    pub constant_interval_pct: u64,
    pub allow_empty_samples: bool,
    /// draw dts/pts from the integer-extreme pool
    pub hostile_values: bool,
    /// hardly ever flush: fragments of hundreds of samples
    pub long_fragments: bool,
    /// percent of H.264/H.265 configurations in which one supplied parameter set begins with
    /// the bytes of an Annex B start code (supplied sets are opaque: carried byte for byte)
    pub start_code_sets_pct: u64,
}

impl Default for FragOpts {
    fn default() -> Self {
        FragOpts { max_ops: 50, bad_dts_pct: 8, big: false, hostile_cfg: false, constant_interval_pct: 30, allow_empty_samples: true, hostile_values: false, long_fragments: false, start_code_sets_pct: 0 }
    }
}

pub fn gen_frag_cfg(r: &mut Rng, o: &FragOpts) -> (FragCfg, Option<av1::SeqHdr>) {
    let vcodec = r.below(4) as u8;
    let via_builder = r.chance(1, 2);
    let mut side = None;
    let ps = |r: &mut Rng, hdr: u8, two: bool| -> Vec<u8> {
        let mut v = vec![hdr];
        if two {
            v.push(1);
        }
        let n = match r.below(10) {
            0 => 0,
            1 => r.range(60, 300) as usize,
            _ => r.range(1, 40) as usize,
        };
        v.extend_from_slice(&r.bytes(n));
        v
    };
    let (w, h) = if o.hostile_cfg && r.chance(1, 3) {
        (*r.pick(&[0u32, 1, 65_535, 65_536, 70_000, u32::MAX]), *r.pick(&[0u32, 1, 65_535, 65_536, u32::MAX]))
    } else {
        *r.pick(&[(1920u32, 1080u32), (640, 480), (16, 16), (65_535, 65_535), (3840, 2160)])
    };
    let (w, h) = if r.chance(1, 3) && (w, h) != (0, 0) && w <= 65_535 && h <= 65_535 { (r.any_dim(), r.any_dim()) } else { (w, h) };
    let mut c = FragCfg {
        vcodec,
        width: w,
        height: h,
        via_builder,
        timescale: if via_builder { 90_000 } else { *r.pick(&[90_000u32, 1000, 48_000, 1, 30_000, 600]) },
        fragment_duration_ms: if via_builder { 2000 } else { *r.pick(&[2000u32, 1, 500, 10_000]) },
        sps: None,
        pps: None,
        vps: None,
        av1_seq: None,
        vp9: None,
        lang: None,
        path: 0,
    };
    match vcodec {
        H264 => {
            c.sps = Some(if r.chance(1, 4) { let mut v = vec![0x67]; v.extend(crate::gen::frames::structured_sps_body(r, false, 12)); v } else { ps(r, 0x67, false) });
            c.pps = Some(ps(r, 0x68, false));
        }
        H265 => {
            c.vps = Some(ps(r, 0x40, true));
            c.sps = Some(if r.chance(1, 4) { let mut v = vec![0x42, 0x01]; v.extend(crate::gen::frames::structured_sps_body(r, true, 24)); v } else { ps(r, 0x42, true) });
            c.pps = Some(ps(r, 0x44, true));
        }
        AV1 => {
            let hdr = av1::gen_seq_hdr(r);
            av1::set_leb_padding(if r.chance(1, 6) { r.range(1, 7) as usize } else { 0 });
            let mut bytes = Vec::new();
            // what an application hands over may hold more than the bare header OBU: a leading
            // temporal delimiter, trailing metadata OBUs (AV1-ISOBMFF allows those in configOBUs)
            let extras = r.chance(1, 4);
            if extras && r.chance(1, 2) {
                bytes.extend_from_slice(&av1::obu(2, &[], true, None));
            }
            bytes.extend_from_slice(&av1::obu(1, &hdr.write(), true, if r.chance(1, 10) { Some(r.byte() & 0xf8) } else { None }));
            if extras && r.chance(2, 3) {
                let n = r.range(1, 12) as usize;
                bytes.extend_from_slice(&av1::obu(5, &r.bytes(n), true, None));
            }
            av1::set_leb_padding(0);
            c.av1_seq = Some(bytes);
            side = Some(hdr);
        }
        _ => {
            let f = crate::model::vp9::gen_fields(r);
            c.vp9 = Some([f.width, f.height, f.profile as u32, f.bit_depth as u32, f.color_space as u32, f.transfer as u32, f.matrix as u32, r.below(62) as u32, f.full_range as u32]);
        }
    }
    if (vcodec == H264 || vcodec == H265) && r.chance(o.start_code_sets_pct, 100) {
        let which = r.below(3);
        let set = match which {
            0 => c.sps.as_mut(),
            1 => c.pps.as_mut(),
            _ => c.vps.as_mut().or(c.sps.as_mut()),
        };
        if let Some(v) = set {
            let code: &[u8] = if r.chance(1, 2) { &[0, 0, 1] } else { &[0, 0, 0, 1] };
            if r.chance(1, 8) {
                *v = code.to_vec();
            } else {
                let mut n = code.to_vec();
                n.extend_from_slice(v);
                *v = n;
            }
        }
    }
    if via_builder && r.chance(1, 4) {
        // a track language given to the builder travels with the muxer (not with FragmentConfig)
        // mostly well-formed codes; a quarter are tags applications really pass (two letters,
        // BCP 47, upper case, empty) or hostile ones: what is stored for those is not specified,
        // but the init segment still has to be a well-formed tree
        c.lang = Some(if r.chance(1, 4) {
            match r.below(3) {
                0 => r.pick(&["", "en", "EN", "ENG", "en-US", "pt-BR", "zh-Hant", "engl", "e1g", "é", "de_DE"]).to_string(),
                _ => crate::gen::hist::hostile_lang(r),
            }
        } else {
            crate::gen::hist::langs(r)
        });
    }
    if via_builder && r.chance(1, 5) {
        // superfluous builder calls for OTHER codecs (a builder first prepared for another codec,
        // or an application that passes every parameter set it has): video() decides the codec
        if vcodec != H265 && r.chance(1, 2) {
            c.vps = Some(ps(r, 0x40, true));
        }
        if (vcodec == AV1 || vcodec == VP9) && r.chance(1, 2) {
            c.sps = Some(ps(r, 0x67, false));
            c.pps = Some(ps(r, 0x68, false));
        }
        if vcodec != AV1 && r.chance(1, 3) {
            let hdr = av1::gen_seq_hdr(r);
            c.av1_seq = Some(av1::obu(1, &hdr.write(), true, None));
        }
        if vcodec != VP9 && r.chance(1, 3) {
            let f = crate::model::vp9::gen_fields(r);
            c.vp9 = Some([f.width, f.height, f.profile as u32, f.bit_depth as u32, f.color_space as u32, f.transfer as u32, f.matrix as u32, r.below(62) as u32, f.full_range as u32]);
        }
    }
    if o.hostile_cfg && !via_builder && r.chance(1, 4) {
        c.timescale = *r.pick(&[0u32, 1, u32::MAX]);
    }
    (c, side)
}

pub fn gen_frag_history(r: &mut Rng, o: &FragOpts) -> (FHistory, Option<av1::SeqHdr>) {
    let (cfg, side) = gen_frag_cfg(r, o);
    let mut ops = gen_frag_ops(r, o);
    if r.chance(1, 5) {
        // real frames of the configured codec (whose in-band parameter sets / headers differ from
        // the configuration given at construction): the muxer is documented to pass samples
        // through untouched and to describe them with the configuration it was built with
        for op in ops.iter_mut() {
            if let FOp::Write { data, sync, .. } = op {
                let kind = if *sync { crate::gen::frames::FrameKind::KeyCfg } else { crate::gen::frames::FrameKind::Delta };
                let n = r.range(1, 40) as usize;
                *data = crate::gen::frames::video_frame(r, cfg.vcodec, kind, n, false);
            }
        }
    } else if (cfg.vcodec == H264 || cfg.vcodec == H265) && r.chance(1, 6) {
        // length-prefixed access units (what an MP4-oriented encoder hands over) whose slice type
        // is independent of the submitted sync flag: pipelines that flag only the first frame,
        // or that flag every frame; the submitted flag is what the segment must carry
        let two = cfg.vcodec == H265;
        for op in ops.iter_mut() {
            if let FOp::Write { data, .. } = op {
                let mut d = Vec::new();
                let mut put = |nal: &[u8]| {
                    d.extend_from_slice(&(nal.len() as u32).to_be_bytes());
                    d.extend_from_slice(nal);
                };
                if r.chance(1, 2) {
                    if two { put(&[35 << 1, 1, 0x50]) } else { put(&[0x09, 0xf0]) };
                }
                let mut nal = if two {
                    vec![*r.pick(&[19u8 << 1, 20 << 1, 21 << 1, 1 << 1, 0]), 1]
                } else {
                    vec![*r.pick(&[0x65u8, 0x25, 0x45, 0x05, 0x41, 0x01, 0x21, 0x61])]
                };
                let n = r.range(1, 24) as usize;
                nal.extend(r.bytes(n));
                put(&nal);
                *data = d;
            }
        }
    }
    (FHistory { cfg, ops }, side)
}

/// One fragment of more than 65535 samples (tiny payloads), flushed, followed by a short one.
pub fn huge_fragment_ops(r: &mut Rng) -> Vec<FOp> {
    let n = 65_530 + r.below(40) as usize;
    let step = *r.pick(&[3000u64, 1, 1500]);
    let reorder = r.chance(1, 3);
    let mut ops = Vec::with_capacity(n + 8);
    let mut dts = if r.chance(1, 2) { 0 } else { 90_000 };
    for k in 0..n + 3 {
        if k == n {
            ops.push(FOp::Flush);
        }
        let cts: i64 = if reorder { [0i64, 2, -1, 1][k % 4] * step as i64 } else { 0 };
        let len = r.range(1, 3) as usize;
        ops.push(FOp::Write { pts: (dts as i64 + cts).max(0) as u64, dts, data: r.bytes(len), sync: k % 250 == 0 });
        dts += step;
    }
    ops.push(FOp::Flush);
    ops
}

pub fn gen_frag_ops(r: &mut Rng, o: &FragOpts) -> Vec<FOp> {
    let n = r.range(1, o.max_ops.max(1) as u64) as usize;
    let constant = r.chance(o.constant_interval_pct, 100);
    let step = *r.pick(&[3000u64, 1, 3003, 1500, 90_000, 33, 0]);
    let start = match r.below(16) {
        0..=6 => 0,
        7..=10 => 90_000,
        11 => {
            // a decode time whose big-endian bytes spell a box name of the movie fragment
            let f = *r.pick(&[b"trun", b"tfdt", b"tfhd", b"traf", b"mfhd", b"moof", b"mdat"]);
            (u32::from_be_bytes(*f) as u64) << (8 * r.below(5))
        }
        _ => r.below(1 << 40),
    };
    let mut dts = start;
    let mut ops = Vec::new();
    let mut queued = 0usize;
    let reorder = r.chance(1, 3);
    let mut k = 0u64;
    // jitter that cancels out: a sample that comes j ticks early is followed by one that is back
    // on the grid, so first interval, last interval and mean interval of a fragment can all be
    // equal while the intervals in the middle are not
    let mut carry = 0u64;
    let cancelling = r.chance(1, 4);
    while ops.len() < n {
        let mut c = r.below(100);
        if o.long_fragments && (55..75).contains(&c) && !r.chance(1, 400) {
            c = 0; // a write instead of a flush
        }
        if constant {
            // writes with the fixed step; flush only with >= 2 queued
            if c < 70 || queued < 2 {
                let cts: i64 = if reorder { [0i64, 2, -1, 1][(k % 4) as usize] * step as i64 } else { 0 };
                let pts = (dts as i64 + cts).max(0) as u64;
                let len = if o.big { r.range(1, 20_000) as usize } else { r.range(1, 64) as usize };
                ops.push(FOp::Write { pts, dts, data: r.bytes(len), sync: k % 12 == 0 });
                dts += step.max(1);
                queued += 1;
                k += 1;
            } else if c < 85 {
                ops.push(FOp::Flush);
                queued = 0;
            } else {
                ops.push(match r.below(3) {
                    0 => FOp::Ready,
                    1 => FOp::CurDur,
                    _ => FOp::Init,
                });
            }
            continue;
        }
        if c < 55 {
            let mut bad = r.chance(o.bad_dts_pct, 100) && dts > 0;
            let d = if bad {
                dts - 1 - r.below(dts.min(5000))
            } else {
                let inc = match r.below(7) {
                    _ if carry > 0 => {
                        let c = carry;
                        carry = 0;
                        step + c
                    }
                    _ if cancelling && step > 1 && r.chance(1, 3) => {
                        carry = r.range(1, step).min(step);
                        step - carry
                    }
                    _ if cancelling => step,
                    0 => 0,
                    1 => 1,
                    2 => r.below(100_000),
                    // a long pause inside the stream (seconds to hours; every gap still fits 32 bits)
                    3 if r.chance(1, 3) => *r.pick(&[900_000u64, 900_001, 1_000_000, 5_400_000, 1 << 31, (1 << 31) + 1, u32::MAX as u64]),
                    _ => step,
                };
                dts.saturating_add(inc)
            };
            let cts: i64 = if reorder { r.range(0, 9000) as i64 - 3000 } else { 0 };
            let mut pts = (d as i128 + cts as i128).clamp(0, u64::MAX as i128) as u64;
            let mut d = d;
            if o.hostile_values && r.chance(1, 3) {
                let pool = [0u64, 1, u32::MAX as u64 - 1, u32::MAX as u64, 1 << 32, (1 << 32) + 1, 1 << 53, 1 << 63, u64::MAX - 3000, u64::MAX - 1, u64::MAX];
                if r.chance(1, 2) {
                    d = *r.pick(&pool);
                }
                if r.chance(1, 2) {
                    pts = *r.pick(&pool);
                }
            }
            let len = if o.allow_empty_samples && r.chance(1, 25) {
                0
            } else if o.big {
                r.range(1, 65_536) as usize
            } else {
                r.range(1, 80) as usize
            };
            ops.push(FOp::Write { pts, dts: d, data: r.bytes(len), sync: r.chance(1, 4) });
            if d < dts {
                bad = true;
            }
            if !bad {
                dts = d;
            }
        } else if c < 75 {
            ops.push(FOp::Flush);
        } else if c < 83 {
            ops.push(FOp::Ready);
        } else if c < 91 {
            ops.push(FOp::CurDur);
        } else {
            ops.push(FOp::Init);
        }
    }
    if r.chance(3, 4) {
        ops.push(FOp::Flush);
    }
    ops
}
