//! Seeded generator of progressive-muxer call histories (valid streams + injected hostile calls).

use super::frames::*;
use crate::hist::*;
use crate::util::Rng;

#[derive(Clone, Debug)]
pub struct GenOpts {
    pub codecs: Vec<u8>,
    /// percent of histories with an audio track
    pub audio_pct: u64,
    /// percent of histories using B-frame reordering (write_video_with_dts)
    pub reorder_pct: u64,
    /// percent chance per slot to inject a hostile (probably rejected) call
    pub hostile_pct: u64,
    /// percent of histories with metadata
    pub meta_pct: u64,
    pub max_video: usize,
    pub max_audio: usize,
    /// allow encode_video / encode_audio convenience calls
    pub encode_pct: u64,
    /// extra finish attempts and calls after finish
    pub finish_games: bool,
    /// allow consuming finishes (finish/finish_with_stats/flush) as the last op
    pub consuming: bool,
    /// large frame sizes
    pub big_frames: bool,
    /// decorate Annex B (garbage, zero bytes, embedded zeros)
    pub decorate: bool,
    /// percent of histories with non-zero video start
    pub nonzero_start_pct: u64,
    /// start the valid stream just before a power-of-two tick boundary (2^31, 2^32, 2^33, 2^53, 2^63, 2^64)
    pub extreme_start_pct: u64,
    /// per-mille of histories whose video frame count is one of the 'round' numbers chunking /
    /// batching code tends to use (255..4096), without an audio track
    pub round_count_pm: u64,
    /// audio start offset relative to the first video frame: allow positive offsets
    pub audio_offset: bool,
    /// percent of histories with no finish at all
    pub no_finish_pct: u64,
    /// hostile configuration (dims / rates from boundary pools)
    pub hostile_cfg_pct: u64,
    /// bursts: all video then all audio etc.
    pub bursts: bool,
}

impl Default for GenOpts {
    fn default() -> Self {
        GenOpts {
            codecs: vec![H264, H265, AV1, VP9],
            audio_pct: 60,
            reorder_pct: 30,
            hostile_pct: 0,
            meta_pct: 40,
            max_video: 24,
            max_audio: 30,
            encode_pct: 0,
            finish_games: false,
            consuming: true,
            big_frames: false,
            decorate: true,
            nonzero_start_pct: 30,
            extreme_start_pct: 3,
            round_count_pm: 0,
            audio_offset: true,
            no_finish_pct: 0,
            hostile_cfg_pct: 0,
            bursts: true,
        }
    }
}

pub const FPS_POOL: [f64; 14] = [23.976, 24.0, 25.0, 29.97, 30.0, 50.0, 59.94, 60.0, 120.0, 1.0, 15.0, 1000.0, 7.5, 90.0];

pub fn hostile_ts(r: &mut Rng, prev: Option<f64>) -> f64 {
    match r.below(16) {
        0 => f64::NAN,
        1 => f64::INFINITY,
        2 => f64::NEG_INFINITY,
        3 => -0.0,
        4 => -1.0,
        5 => -1e-9,
        6 => -f64::MIN_POSITIVE,
        7 => prev.unwrap_or(0.0),
        8 => prev.map(|p| p * 0.5).unwrap_or(0.0),
        9 => prev.map(|p| p - 1.0 / 90_000.0).unwrap_or(0.0),
        10 => prev.map(|p| p + 1e-7).unwrap_or(1e-7), // sub-tick step
        11 => (1u64 << 32) as f64 / 90_000.0 + prev.unwrap_or(0.0) + r.range(0, 2) as f64 / 90_000.0,
        12 => 2f64.powi(53) / 90_000.0,
        13 => 2f64.powi(63),
        14 => f64::MAX,
        _ => f64::from_bits(r.next_u64()),
    }
}

/// Names the container itself uses: a title (or any other caller-controlled byte string) that
/// contains them must not confuse anything that locates boxes.
pub const FOURCCS: [&str; 28] = [
    "stco", "stsz", "stsc", "stts", "ctts", "stss", "stsd", "stbl", "trak", "moov", "mdat", "udta", "meta", "ilst", "data", "trun", "tfdt", "tfhd", "traf", "moof", "mdhd", "mvhd", "tkhd", "hdlr", "avcC", "hvcC", "esds", "co64",
];

pub fn titles(r: &mut Rng) -> String {
    if r.chance(1, 8) {
        let mut s = String::new();
        for _ in 0..r.range(1, 3) {
            for _ in 0..r.below(14) {
                s.push((b'a' + r.below(26) as u8) as char);
            }
            s.push_str(*r.pick(&FOURCCS[..]));
        }
        for _ in 0..r.below(30) {
            s.push((b'a' + r.below(26) as u8) as char);
        }
        return s;
    }
    match r.below(8) {
        0 => String::new(),
        1 => "Test".to_string(),
        2 => "Ünïcödé títle — ☃".to_string(),
        3 => "𝄞 four-byte 😀 chars".to_string(),
        4 => "x".repeat(r.range(1, 300) as usize),
        5 => "日本語のタイトル".repeat(r.range(1, 20) as usize),
        6 => r.pick(&["a\0b\nc", "Holiday\0", "padded\0\0\0\0", "\0", " lead and trail ", "tab\t"]).to_string(),
        _ => (0..r.range(1, 40)).map(|_| (b'a' + r.below(26) as u8) as char).collect(),
    }
}

/// Language tags with a multi-byte character at every small byte offset (hostile).
pub fn hostile_lang(r: &mut Rng) -> String {
    let mut s: String = (0..r.below(5)).map(|_| (b'a' + r.below(26) as u8) as char).collect();
    s.push(*r.pick(&['ç', 'é', '中', '日', '😀', '\u{0}', 'Z', '~']));
    for _ in 0..r.below(4) {
        s.push(*r.pick(&['a', 'z', '-', 'U', 'ß', '語']));
    }
    s
}

pub fn langs(r: &mut Rng) -> String {
    match r.below(6) {
        0 => "eng".into(),
        1 => "und".into(),
        2 => "fra".into(),
        _ => (0..3).map(|_| (b'a' + r.below(26) as u8) as char).collect(),
    }
}

pub fn gen_cfg(r: &mut Rng, o: &GenOpts) -> Cfg {
    let vcodec = *r.pick(&o.codecs);
    let (w, h) = if r.chance(o.hostile_cfg_pct, 100) {
        let pool = [0u32, 1, 2, 65_535, 65_536, 65_537, u32::MAX, 1 << 31, 4096, 8192];
        (*r.pick(&pool), *r.pick(&pool))
    } else {
        *r.pick(&[(640u32, 480u32), (1920, 1080), (1280, 720), (16, 16), (3840, 2160), (65_535, 65_535), (1, 1), (352, 288)])
    };
    let (w, h) = if r.chance(1, 3) && !r.chance(o.hostile_cfg_pct, 100) { (r.any_dim(), r.any_dim()) } else { (w, h) };
    let audio = if r.chance(o.audio_pct, 100) {
        let kind = match r.below(10) {
            0 => A_NONE,
            1..=3 => A_OPUS,
            _ => r.range(1, 6) as u8,
        };
        let rate = if r.chance(o.hostile_cfg_pct, 100) {
            *r.pick(&[0u32, 1, 65_535, 65_536, 96_000, 192_000, u32::MAX])
        } else if kind == A_OPUS {
            *r.pick(&[48_000u32, 48_000, 44_100, 16_000])
        } else {
            *r.pick(&AAC_RATES[3..])
        };
        let channels = if r.chance(o.hostile_cfg_pct, 100) { *r.pick(&[0u16, 8, 15, 16, 255, 256, 65_535]) } else { r.range(1, 2) as u16 };
        Some(AudioCfg { kind, rate, channels })
    } else {
        None
    };
    let meta = r.chance(o.meta_pct, 100);
    let (title, ctime, lang) = if meta {
        (
            if r.chance(1, 2) { Some(titles(r)) } else { None },
            if r.chance(1, 2) { Some(match r.below(6) { 0 => 0, 1 => r.below(4_102_444_800), 2 => r.below(253_402_300_800), 3 => 253_402_300_800 + r.below(1 << 40), 4 => *r.pick(&[253_402_300_799u64, 253_402_300_800, 1 << 53, u64::MAX / 2, u64::MAX]), _ => 1_700_000_000 }) } else { None },
            if r.chance(1, 2) { Some(langs(r)) } else { None },
        )
    } else {
        (None, None, None)
    };
    Cfg {
        video: true,
        vcodec,
        width: w,
        height: h,
        fps_bits: (*r.pick(&FPS_POOL)).to_bits(),
        audio,
        fast_start: match r.below(3) {
            0 => None,
            1 => Some(true),
            _ => Some(false),
        },
        meta,
        title,
        ctime,
        lang,
        // builder aliases (set_video_track / set_audio_track) are as good as video() / audio()
        path: if r.chance(1, 4) { r.below(4) as u8 | if r.chance(1, 3) { 8 } else { 0 } | if r.chance(1, 3) { 16 } else { 0 } | if r.chance(1, 3) { 32 } else { 0 } } else { 0 },
    }
}

/// One valid video stream: (pts, dts, kind) in decode order.
pub fn video_timeline(r: &mut Rng, n: usize, reorder: bool, start: f64) -> Vec<(f64, f64)> {
    let fps = *r.pick(&FPS_POOL);
    let vfr = r.chance(1, 4);
    let mut dts = Vec::with_capacity(n);
    let mut t = start;
    for i in 0..n {
        if vfr {
            dts.push(t);
            t += (0.25 + r.f64_unit() * 2.0) / fps;
        } else {
            dts.push(start + i as f64 / fps);
        }
    }
    if !reorder {
        return dts.iter().map(|&d| (d, d)).collect();
    }
    // display order: permute within small windows; pts taken from the dts grid (+ optional delay)
    let delay = r.below(3) as usize;
    let mut order: Vec<usize> = (0..n).collect();
    let mut i = 1; // keep the first (key) frame first in display order too (sometimes not)
    if r.chance(1, 5) {
        i = 0;
    }
    while i < n {
        let w = (r.range(2, 4) as usize).min(n - i);
        match r.below(3) {
            0 => order[i..i + w].rotate_left(1), // P B B -> display B B P
            1 => order[i..i + w].reverse(),
            _ => {
                let (a, b) = order.split_at_mut(i);
                let _ = a;
                r.shuffle(&mut b[..w]);
            }
        }
        i += w;
    }
    // order[k] = decode index shown k-th  => pts of decode index order[k] = grid[k + delay]
    let step = if n >= 2 { dts[1] - dts[0] } else { 1.0 / fps };
    let grid = |k: usize| -> f64 {
        if k < n {
            dts[k]
        } else {
            dts[n - 1] + (k - n + 1) as f64 * step
        }
    };
    let mut pts = vec![0.0; n];
    for (k, &di) in order.iter().enumerate() {
        pts[di] = grid(k + delay);
    }
    // now and then ONE picture is shown much later than its decode slot (a long-term reference or
    // an alternate reference shown at the end of its group): every picture decoded after it - many
    // more than any reorder window - ends earlier, so "the end of the track" is not to be found
    // among the last few samples in decode order
    if n >= 4 && r.chance(1, 10) {
        let i = r.usize_below(n - 1);
        let late = dts[n - 1] + step * r.range(2, 60) as f64;
        if late - dts[i] < 20_000.0 {
            pts[i] = late;
        }
    }
    // sometimes the two timestamps of a frame carry independent sub-tick noise (capture clocks):
    // they may then round to neighbouring ticks, and the offset of that frame is +-1, not 0
    let mut dts = dts;
    if r.chance(1, 6) {
        for i in 0..n {
            if r.chance(1, 2) {
                let j = |r: &mut Rng, v: f64| {
                    let d = (r.f64_unit() * 0.9 - 0.45) / 90_000.0;
                    if v + d < 0.0 { v + d.abs() } else { v + d }
                };
                pts[i] = j(r, pts[i]);
                dts[i] = j(r, dts[i]);
            }
        }
    }
    // sometimes the whole decode timeline runs LATER than the presentation timeline (negative
    // composition offsets from the first frame on: only decode order has to increase)
    if r.chance(1, 8) {
        let shift = step * r.range(1, 3) as f64;
        return (0..n).map(|i| (pts[i], dts[i] + shift)).collect();
    }
    (0..n).map(|i| (pts[i], dts[i])).collect()
}

/// Generate a history. The stream itself is contract-valid; hostile calls are injected between
/// valid ones with probability `hostile_pct`.
pub fn gen_history(r: &mut Rng, o: &GenOpts) -> History {
    let cfg = gen_cfg(r, o);
    gen_history_for(r, o, cfg)
}

pub fn gen_history_for(r: &mut Rng, o: &GenOpts, cfg: Cfg) -> History {
    let style = random_adts_style(r);
    set_adts_style(style);
    let h = gen_history_inner(r, o, cfg);
    set_adts_style(None);
    h
}

fn gen_history_inner(r: &mut Rng, o: &GenOpts, cfg: Cfg) -> History {
    let mut cfg = cfg;
    let reorder = r.chance(o.reorder_pct, 100);
    let round = r.chance(o.round_count_pm, 1000);
    let nv = if round {
        cfg.audio = None;
        if r.chance(1, 50) {
            // sample counts around the 16-bit boundary
            *r.pick(&[65_535usize, 65_536, 65_537])
        } else {
            *r.pick(&[255usize, 256, 257, 359, 360, 361, 512, 720, 1023, 1024, 1025, 1080, 2048, 3072, 4096])
        }
    } else {
        match r.below(12) {
            0 => 0,
            1 => 1,
            2 => 2,
            _ => r.range(1, o.max_video.max(1) as u64) as usize,
        }
    };
    let start = if r.chance(o.extreme_start_pct, 100) {
        // the stream crosses (or sits next to) a boundary at which 32/53/63/64-bit tick arithmetic changes
        let edge = 2f64.powi(*r.pick(&[31, 32, 33, 53, 63, 63, 64])) / 90_000.0;
        edge - r.f64_unit() * (nv.max(1) as f64) / 15.0
    } else if r.chance(o.nonzero_start_pct, 100) {
        match r.below(4) {
            0 => 1.0,
            1 => r.f64_unit() * 10.0,
            2 => 3600.0 * r.range(1, 10) as f64,
            _ => 1.0 / 3.0,
        }
    } else {
        0.0
    };
    let mut vt = video_timeline(r, nv, reorder, start);
    if !reorder && start == 0.0 && nv >= 3 && r.chance(o.extreme_start_pct, 200) {
        // a sample duration, or the whole track duration, whose big-endian bytes spell a box name
        let magic = u32::from_be_bytes(r.pick(&FOURCCS[..]).as_bytes().try_into().unwrap()) as u64;
        let t = |k: u64| k as f64 / 90_000.0;
        let mut ticks: Vec<u64> = Vec::with_capacity(nv);
        if r.chance(1, 2) {
            let at = 1 + r.usize_below(nv - 1);
            let mut cur = 0u64;
            for i in 0..nv {
                if i > 0 {
                    cur += if i == at { magic } else { 3000 };
                }
                ticks.push(cur);
            }
        } else {
            // durations a, d, d (the last one repeats its predecessor): a + 2d = magic
            let a = if magic % 2 == 1 { 1 } else { 2 };
            let d = (magic - a) / 2;
            ticks.extend_from_slice(&[0, a, a + d]);
        }
        vt = ticks.iter().map(|&k| (t(k), t(k))).collect();
    }
    let nv = vt.len();
    let audio = cfg.audio_effective().cloned();
    // video ops
    let mut vops: Vec<Op> = Vec::new();
    let use_encode_v = !reorder && start == 0.0 && r.chance(o.encode_pct, 100);
    let enc_ms = *r.pick(&[33u32, 40, 20, 1, 1000, 17]);
    let enc_var = r.chance(1, 3);
    for (i, &(pts, dts)) in vt.iter().enumerate() {
        let body = if o.big_frames && !round { frame_len(r) } else { small_len(r) };
        let kind = if i == 0 {
            FrameKind::KeyCfg
        } else if r.chance(1, 8) {
            if r.chance(1, 2) {
                FrameKind::KeyCfg
            } else {
                FrameKind::KeyNoCfg
            }
        } else {
            FrameKind::Delta
        };
        let data = video_frame(r, cfg.vcodec, kind, body, o.decorate);
        let key = kind != FrameKind::Delta;
        if use_encode_v {
            // constant frame duration, or (variable frame rate) a different one per call
            let d = if enc_var { *r.pick(&[33u32, 40, 20, 50, 100, 17, 1]) } else { enc_ms };
            vops.push(Op::EncodeVideo { data, dur_ms: d });
        } else if reorder || r.chance(1, 6) {
            vops.push(Op::wvd(pts, dts, data, key));
        } else {
            vops.push(Op::wv(pts, data, key));
        }
    }
    // audio ops
    let mut aops: Vec<Op> = Vec::new();
    if let (Some(a), true) = (&audio, nv > 0) {
        let na = match r.below(8) {
            0 => 0,
            1 => 1,
            _ => r.range(1, o.max_audio.max(1) as u64) as usize,
        };
        let first_v_pts = vt[0].0;
        let off = if o.audio_offset {
            match r.below(5) {
                0 | 1 => 0.0,
                2 => r.f64_unit() * 0.5,
                3 => 1024.0 / 48_000.0,
                _ => 2.0,
            }
        } else {
            0.0
        };
        let step = if a.is_opus() { *r.pick(&[0.02, 0.01, 0.0025, 0.06]) } else { 1024.0 / (*r.pick(&[48_000.0, 44_100.0, 32_000.0, 8_000.0])) };
        let use_encode_a = use_encode_v && off == 0.0 && r.chance(1, 2);
        // some streams carry capture jitter: individual timestamps a few ticks off the grid
        let jitter = r.chance(1, 5);
        // audio timestamps only have to be non-decreasing: some streams stamp frames in pairs
        let eq_den = if r.chance(1, 6) { 2 } else { 12 };
        for j in 0..na {
            let mut pts = first_v_pts + off + j as f64 * step;
            if j > 0 && r.chance(1, eq_den) {
                pts = first_v_pts + off + (j - 1) as f64 * step; // equal to the previous one
            } else if jitter && j > 0 && r.chance(1, 3) {
                pts += (r.range(0, 40) as f64 - 20.0) / 90_000.0;
            }
            let len = if o.big_frames { frame_len(r).min(8000) } else { small_len(r) };
            let data = audio_frame(r, a, len);
            if use_encode_a {
                aops.push(Op::EncodeAudio { data, samples: if a.is_opus() { 960 } else { 1024 } });
            } else {
                aops.push(Op::wa(pts, data));
            }
        }
        // some recorders stamp audio with the video clock: exact cross-track ties at t > 0
        if r.chance(1, 6) && !use_encode_a {
            for op in aops.iter_mut() {
                if let Op::WriteAudio { pts, .. } = op {
                    if r.chance(1, 3) {
                        let p = f64::from_bits(*pts);
                        if let Some(&(vp, _)) = vt.iter().min_by(|a, b| (a.0 - p).abs().partial_cmp(&(b.0 - p).abs()).unwrap_or(std::cmp::Ordering::Equal)) {
                            // exactly on the video frame, or one tick before / after it
                            let q = vp + [0.0, 0.0, 1.0, -1.0][r.below(4) as usize] / 90_000.0;
                            if q >= first_v_pts {
                                *pts = q.to_bits();
                            }
                        }
                    }
                }
            }
        }
        // keep audio non-decreasing after the "equal" trick
        let mut last = f64::MIN;
        for op in aops.iter_mut() {
            if let Op::WriteAudio { pts, .. } = op {
                let p = f64::from_bits(*pts);
                if p < last {
                    *pts = last.to_bits();
                } else {
                    last = p;
                }
            }
        }
    }
    // ... or the other way round: a video frame stamped one tick after / before / on an audio
    // frame that sits on its own natural clock (variable-frame-rate capture)
    if !reorder && !use_encode_v && !aops.is_empty() && vops.len() >= 3 && r.chance(1, 6) {
        let apts: Vec<f64> = aops.iter().filter_map(|o| if let Op::WriteAudio { pts, .. } = o { Some(f64::from_bits(*pts)) } else { None }).collect();
        if !apts.is_empty() {
            for i in 1..vops.len() - 1 {
                if !r.chance(1, 3) {
                    continue;
                }
                let ts = |o: &Op| match o {
                    Op::WriteVideo { pts, .. } => Some(f64::from_bits(*pts)),
                    Op::WriteVideoDts { pts, dts, .. } if pts == dts => Some(f64::from_bits(*pts)),
                    _ => None,
                };
                let (Some(lo), Some(hi)) = (ts(&vops[i - 1]), ts(&vops[i + 1])) else { continue };
                let q = *r.pick(&apts) + [1.0, 1.0, 0.0, -1.0][r.below(4) as usize] / 90_000.0;
                if q > lo + 2.0 / 90_000.0 && q < hi - 2.0 / 90_000.0 {
                    match &mut vops[i] {
                        Op::WriteVideo { pts, .. } => *pts = q.to_bits(),
                        Op::WriteVideoDts { pts, dts, .. } if pts == dts => {
                            *pts = q.to_bits();
                            *dts = q.to_bits();
                        }
                        _ => {}
                    }
                }
            }
        }
    }
    // merge: first video always precedes audio; otherwise random / bursty interleave
    let mut ops: Vec<Op> = Vec::new();
    let mode = if o.bursts { r.below(4) } else { 3 };
    let mut vi = 0;
    let mut ai = 0;
    if !vops.is_empty() {
        ops.push(vops[0].clone());
        vi = 1;
    }
    while vi < vops.len() || ai < aops.len() {
        let take_video = if vi >= vops.len() {
            false
        } else if ai >= aops.len() {
            true
        } else {
            match mode {
                0 => true,                                   // all video first
                1 => false,                                  // all audio first
                2 => r.chance(1, 2) && (r.chance(1, 2) || vi % 5 != 0), // bursts
                _ => r.chance(vops.len() as u64, (vops.len() + aops.len()) as u64),
            }
        };
        if take_video {
            ops.push(vops[vi].clone());
            vi += 1;
        } else {
            ops.push(aops[ai].clone());
            ai += 1;
        }
    }
    // hostile injections
    // (none in the round-count recordings: there the exact number of accepted frames matters)
    if o.hostile_pct > 0 && !round {
        let mut out = Vec::with_capacity(ops.len() * 2);
        let mut last_v: Option<f64> = None;
        let mut last_a: Option<f64> = None;
        let inject = |r: &mut Rng, out: &mut Vec<Op>, last_v: Option<f64>, last_a: Option<f64>, next: Option<&Op>| {
            let vk = if r.chance(1, 2) { FrameKind::KeyCfg } else { FrameKind::Delta };
            let valid_v = video_frame(r, cfg.vcodec, vk, 12, false);
            let next_ts = |r: &mut Rng, p: Option<f64>| p.map(|x| x + 0.001 + r.f64_unit() * 0.01).unwrap_or(0.0);
            // calls refused for their payload, now and then with a timestamp far beyond
            // everything accepted before or after (seconds, minutes, more than 2^32 ticks)
            let refused_ts = |r: &mut Rng, p: Option<f64>| {
                let t = next_ts(r, p);
                if r.chance(1, 4) { t + *r.pick(&[7.5f64, 1000.0, 40_000.0, 50_000.0]) } else { t }
            };
            let op = match r.below(13) {
                12 => {
                    // composition offset exactly at / next to the ends of the signed 32-bit field
                    let base = ((next_ts(r, last_v) * 90_000.0).round().min(1e15) as i128) + 1;
                    let k = (1i128 << 31) + *r.pick(&[-1i128, 0, 1]);
                    let (p, d) = if r.chance(1, 2) { (base + k, base) } else { (base, base + k) };
                    Op::wvd(p as f64 / 90_000.0, d as f64 / 90_000.0, valid_v, r.chance(3, 4))
                }
                0 => Op::wv(hostile_ts(r, last_v), valid_v, r.chance(1, 2)),
                1 => {
                    let d = if cfg.vcodec == AV1 && r.chance(1, 3) { crate::model::av1::truncated_seq_unit(r) } else { hostile_bytes(r, &valid_v) };
                    Op::wv(next_ts(r, last_v), d, r.chance(1, 2))
                }
                2 => Op::wvd(hostile_ts(r, last_v), next_ts(r, last_v), valid_v, r.chance(1, 2)),
                3 => Op::wvd(next_ts(r, last_v), hostile_ts(r, last_v), valid_v, r.chance(1, 2)),
                4 => Op::wa(hostile_ts(r, last_a), audio.as_ref().map(|a| audio_frame(r, a, 10)).unwrap_or_else(|| vec![1, 2, 3])),
                5 => {
                    let good = audio.as_ref().map(|a| audio_frame(r, a, 10)).unwrap_or_else(|| vec![0xff, 0xf1, 0x4c, 0x80, 0x01, 0x3f, 0xfc, 0xaa]);
                    let bad = match &audio {
                        Some(a) if r.chance(1, 2) => bad_audio_frame(r, a),
                        _ => hostile_bytes(r, &good),
                    };
                    Op::wa(refused_ts(r, last_a.or(last_v)), bad)
                }
                6 => Op::EncodeVideo { data: hostile_bytes(r, &valid_v), dur_ms: *r.pick(&[0u32, 1, 33, u32::MAX]) },
                7 => Op::EncodeAudio { data: audio.as_ref().map(|a| if r.chance(1, 2) { audio_frame(r, a, 8) } else { bad_audio_frame(r, a) }).unwrap_or_else(|| vec![0]), samples: *r.pick(&[0u32, 960, 1024, u32::MAX]) },
                8 => {
                    // delta frame / key-without-config where a config key frame is needed, or just a dup
                    let k = if r.chance(1, 2) { FrameKind::Delta } else { FrameKind::KeyNoCfg };
                    Op::wv(refused_ts(r, last_v), video_frame(r, cfg.vcodec, k, 10, false), r.chance(1, 2))
                }
                9 => match next {
                    // the next valid call with a broken timestamp relation: replay previous ts
                    Some(Op::WriteVideo { data, key, .. }) => Op::wv(last_v.unwrap_or(0.0), data.clone(), *key),
                    Some(Op::WriteAudio { data, .. }) => Op::wa(last_a.map(|x| x - 0.5).unwrap_or(-1.0), data.clone()),
                    _ => Op::wv(-1.0, valid_v, true),
                },
                10 => Op::wa(last_v.map(|v| v * 0.25).unwrap_or(0.0), audio.as_ref().map(|a| audio_frame(r, a, 6)).unwrap_or_else(|| vec![9])),
                _ => Op::wv(refused_ts(r, last_v), Vec::new(), true),
            };
            out.push(op);
        };
        // possibly before the first op (fresh state)
        if r.chance(o.hostile_pct, 100) {
            inject(r, &mut out, None, None, ops.first());
            if r.chance(1, 3) {
                inject(r, &mut out, None, None, ops.first());
            }
        }
        for (i, op) in ops.iter().enumerate() {
            out.push(op.clone());
            match op {
                Op::WriteVideo { pts, .. } => last_v = Some(f64::from_bits(*pts)),
                Op::WriteVideoDts { pts, dts, .. } => last_v = Some(f64::from_bits(*pts).max(f64::from_bits(*dts))),
                Op::WriteAudio { pts, .. } => last_a = Some(f64::from_bits(*pts)),
                _ => {}
            }
            if r.chance(o.hostile_pct, 100) {
                inject(r, &mut out, last_v, last_a, ops.get(i + 1));
                if r.chance(1, 4) {
                    inject(r, &mut out, last_v, last_a, ops.get(i + 1));
                }
            }
        }
        ops = out;
    }
    // finishes
    if !r.chance(o.no_finish_pct, 100) {
        let inplace = [FinishKind::InPlace, FinishKind::InPlaceStats];
        let all = [FinishKind::InPlace, FinishKind::InPlaceStats, FinishKind::Finish, FinishKind::FinishStats, FinishKind::Flush];
        if o.finish_games {
            // early finish somewhere inside, then the rest become post-finish calls
            if r.chance(1, 3) && !ops.is_empty() {
                let pos = r.usize_below(ops.len() + 1);
                ops.insert(pos, Op::Finish(*r.pick(&inplace)));
            }
            let extra = r.range(1, 3);
            for k in 0..extra {
                let last = k + 1 == extra;
                let kind = if last && o.consuming { *r.pick(&all) } else { *r.pick(&inplace) };
                ops.push(Op::Finish(kind));
                if !last && r.chance(1, 2) {
                    // a write after finish
                    let t = 1e6 + k as f64;
                    if r.chance(1, 2) || audio.is_none() {
                        ops.push(Op::wv(t, video_frame(r, cfg.vcodec, FrameKind::KeyCfg, 8, false), true));
                    } else {
                        ops.push(Op::wa(t, audio_frame(r, audio.as_ref().unwrap(), 8)));
                    }
                }
            }
        } else {
            let kind = if o.consuming { *r.pick(&all) } else { *r.pick(&inplace) };
            // stats-bearing kinds are the most informative: prefer them
            let kind = if r.chance(1, 2) { if kind.consuming() { FinishKind::FinishStats } else { FinishKind::InPlaceStats } } else { kind };
            ops.push(Op::Finish(kind));
        }
    }
    History { cfg, ops }
}
