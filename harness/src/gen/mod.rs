pub mod frag;
pub mod frames;
pub mod hist;
