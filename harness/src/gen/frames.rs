//! Seeded generators of encoded frames whose expected payload / configuration is known by
//! construction, plus hostile variants.

use crate::hist::*;
use crate::model::av1;
use crate::model::basic::build_adts;
use crate::model::vp9;
use crate::util::Rng;

fn start_code(r: &mut Rng, out: &mut Vec<u8>) {
    if r.chance(1, 2) {
        out.extend_from_slice(&[0, 0, 0, 1]);
    } else {
        out.extend_from_slice(&[0, 0, 1]);
    }
}

/// NAL body: mostly non-zero noise, sometimes with embedded zero runs (but the model, not the
/// generator, decides what the units are).
fn nal_body(r: &mut Rng, len: usize, zeros: bool) -> Vec<u8> {
    let mut v = r.bytes(len);
    for b in v.iter_mut() {
        if *b == 0 || (!zeros && *b < 4) {
            *b = 0x80 | (*b & 0x7f) | 4;
        }
    }
    if len >= 4 && r.chance(1, 25) {
        // bytes that spell one of the container's own box names
        let p = r.usize_below(len - 3);
        let f = *r.pick(&crate::gen::hist::FOURCCS[..]);
        v[p..p + 4].copy_from_slice(f.as_bytes());
    }
    if zeros && len > 4 && r.chance(1, 3) {
        let p = r.usize_below(len - 2);
        v[p] = 0;
        if r.chance(1, 2) {
            v[p + 1] = 0;
            if r.chance(1, 2) {
                v[p + 2] = 3;
            }
        }
    }
    v
}

pub fn frame_len(r: &mut Rng) -> usize {
    match r.below(10) {
        0 => 1,
        1 => r.range(2, 8) as usize,
        2..=6 => r.range(8, 200) as usize,
        7 | 8 => r.range(200, 4096) as usize,
        _ => match r.below(4) {
            0 => r.range(65_530, 65_545) as usize,
            1 => r.range(65_536, 200_000) as usize,
            _ => r.range(4096, 65_536) as usize,
        },
    }
}

pub fn small_len(r: &mut Rng) -> usize {
    match r.below(6) {
        0 => 1,
        1 => r.range(2, 8) as usize,
        _ => r.range(8, 120) as usize,
    }
}

/// RBSP -> NAL payload: an emulation-prevention byte 03 after every two zero bytes that are
/// followed by a byte <= 3 (ITU-T H.264 / H.265 7.4.1), and no trailing zero.
pub fn escape_rbsp(rbsp: &[u8]) -> Vec<u8> {
    let mut out = Vec::with_capacity(rbsp.len() + 8);
    let mut zeros = 0;
    for &b in rbsp {
        if zeros >= 2 && b <= 3 {
            out.push(3);
            zeros = 0;
        }
        out.push(b);
        zeros = if b == 0 { zeros + 1 } else { 0 };
    }
    if out.last() == Some(&0) {
        out.push(0x80);
    }
    out
}

/// A parameter-set payload shaped like a real one: profile / level bytes from the defined
/// values, then bit soup with long runs of zero bits (which real SPS have, and which need
/// emulation-prevention bytes), so that anything that starts PARSING parameter sets meets them.
pub fn structured_sps_body(r: &mut Rng, hevc: bool, len: usize) -> Vec<u8> {
    let mut rbsp = Vec::new();
    if hevc {
        rbsp.push(0x01 | ((r.below(8) as u8) << 1)); // vps id / max sub layers / nesting
        rbsp.push(((r.below(4) as u8) << 6) | ((r.below(2) as u8) << 5) | *r.pick(&[1u8, 2, 3, 4, 9, 0, 31]));
        rbsp.extend_from_slice(&[*r.pick(&[0x60u8, 0x40, 0x20, 0xff]), 0, 0, 0]);
        rbsp.extend_from_slice(&[*r.pick(&[0x90u8, 0xb0, 0x00]), 0, 0, 0, 0, 0]);
        rbsp.push(*r.pick(&[30u8, 63, 93, 120, 123, 150, 153, 156, 183, 186, 255, 0]));
    } else {
        rbsp.push(*r.pick(&[66u8, 77, 88, 100, 110, 122, 144, 244, 44, 83, 86, 118, 128, 138]));
        rbsp.push(r.byte() & 0xfc);
        rbsp.push(*r.pick(&[10u8, 11, 12, 13, 20, 21, 22, 30, 31, 32, 40, 41, 42, 50, 51, 52, 9, 0, 255]));
    }
    while rbsp.len() < len.max(6) {
        match r.below(5) {
            0 => rbsp.extend(std::iter::repeat(0u8).take(r.range(1, 6) as usize)),
            1 => rbsp.push(1 << r.below(8)),
            _ => rbsp.push(r.byte()),
        }
    }
    escape_rbsp(&rbsp)
}

#[derive(Clone, Copy, Debug, PartialEq, Eq)]
pub enum FrameKind {
    /// key frame carrying its configuration
    KeyCfg,
    /// key frame without configuration
    KeyNoCfg,
    /// non-key frame
    Delta,
}

fn join_nals(r: &mut Rng, nals: &[Vec<u8>], decorate: bool) -> Vec<u8> {
    let mut out = Vec::new();
    if decorate && r.chance(1, 8) {
        // leading garbage that contains no start code
        let n = r.range(1, 6) as usize;
        out.extend_from_slice(&nal_body(r, n, false));
    }
    if decorate && r.chance(1, 8) {
        out.push(0); // leading zero_byte
    }
    for n in nals {
        if decorate && r.chance(1, 20) {
            // two start codes back to back (an empty unit in between)
            start_code(r, &mut out);
        }
        start_code(r, &mut out);
        out.extend_from_slice(n);
    }
    if decorate && r.chance(1, 6) {
        let n = r.range(1, 3) as usize;
        out.extend(std::iter::repeat(0u8).take(n));
    } else if decorate && r.chance(1, 12) {
        // the buffer ends in a bare start code (an empty last unit)
        start_code(r, &mut out);
    }
    out
}

pub fn h264_frame(r: &mut Rng, kind: FrameKind, body_len: usize, decorate: bool) -> Vec<u8> {
    let mut nals: Vec<Vec<u8>> = Vec::new();
    if r.chance(1, 5) {
        nals.push(vec![0x09, 0xf0]); // AUD
    }
    let mk = |r: &mut Rng, hdr: u8, len: usize| {
        let mut v = vec![hdr];
        v.extend_from_slice(&nal_body(r, len, decorate));
        v
    };
    match kind {
        FrameKind::KeyCfg => {
            let sps_len = if r.chance(1, 10) { r.range(0, 2) as usize } else { r.range(3, 40) as usize };
            let sps = if r.chance(1, 4) {
                let mut v = vec![0x67];
                v.extend(structured_sps_body(r, false, sps_len));
                v
            } else {
                mk(r, 0x67, sps_len)
            };
            let pps = { let n = r.range(1, 12) as usize; mk(r, 0x68, n) };
            let order = r.below(6);
            if order == 0 {
                nals.push(pps.clone());
                if r.chance(1, 4) {
                    // a second, differing PPS before the SPS: the FIRST one is the configuration
                    nals.push({ let n = r.range(1, 9) as usize; mk(r, 0x68, n) });
                }
                nals.push(sps.clone());
            } else {
                nals.push(sps.clone());
                if r.chance(1, 4) {
                    // a second, differing SPS before the PPS: the FIRST one is the configuration
                    nals.push({ let n = r.range(3, 24) as usize; mk(r, 0x67, n) });
                }
                if r.chance(1, 6) {
                    nals.push(vec![0x06, 0x05, 0x01, 0x80]); // SEI in between
                }
                nals.push(pps.clone());
            }
            if r.chance(1, 5) {
                // a later, differing SPS/PPS: must be ignored for the configuration
                nals.push({ let n = r.range(3, 20) as usize; mk(r, 0x67, n) });
                nals.push({ let n = r.range(1, 8) as usize; mk(r, 0x68, n) });
            }
            if r.chance(1, 8) {
                nals.push(sps); // repeated
            }
            let slices = if r.chance(1, 6) { 2 } else { 1 };
            for _ in 0..slices {
                nals.push(mk(r, 0x65, body_len / slices));
            }
        }
        FrameKind::KeyNoCfg => {
            if r.chance(1, 3) {
                // only one of the two
                let which = if r.chance(1, 2) { 0x67 } else { 0x68 };
                nals.push(mk(r, which, 6));
            }
            nals.push(mk(r, 0x65, body_len));
        }
        FrameKind::Delta => {
            let hdr = if r.chance(1, 2) { 0x41 } else { 0x01 };
            nals.push(mk(r, hdr, body_len));
        }
    }
    if decorate && r.chance(1, 6) {
        // nal_ref_idc 1 or 2 instead of 3 on parameter sets and reference slices (hardware
        // encoders do that; only 0 is forbidden for them)
        // (drawn per unit: a first parameter set with nal_ref_idc 1 may be followed by a later,
        // differing one with 3 - the first one is still the configuration)
        for n in nals.iter_mut() {
            if !n.is_empty() && matches!(n[0] & 0x1f, 5 | 7 | 8) && r.chance(2, 3) {
                let idc = r.range(1, 3) as u8;
                n[0] = (n[0] & 0x9f) | (idc << 5);
            }
        }
    }
    extra_units(r, &mut nals, false, decorate);
    odd_layouts(r, &mut nals, kind, decorate, 0x0c);
    join_nals(r, &nals, decorate)
}

/// Legal NAL units that are neither parameter sets nor the slices the frame kind is about:
/// SEI, delimiters, end-of-sequence/stream, filler data, SPS extension / subset SPS / prefix
/// units, data partitions, auxiliary slices and the reserved / unspecified types (H.264 Table
/// 7-1); for H.265 the non-IRAP slice types, AUD/EOS/EOB/FD/SEI, reserved and unspecified types
/// with any nuh_layer_id / temporal id (H.265 Table 7-1). None of them is part of the
/// configuration, none makes a frame a key frame, and all of them are stored like any other unit.
fn extra_units(r: &mut Rng, nals: &mut Vec<Vec<u8>>, hevc: bool, decorate: bool) {
    if !decorate || !r.chance(1, 5) {
        return;
    }
    for _ in 0..r.range(1, 3) {
        let len = match r.below(4) {
            0 => 0,
            1 => r.range(1, 3) as usize,
            _ => r.range(4, 40) as usize,
        };
        let mut v = if hevc {
            let t = *r.pick(&[35u8, 36, 37, 38, 39, 40, 41, 44, 47, 48, 55, 63, 10, 13, 15, 2, 3, 4, 5, 6, 7, 8, 9, 0, 1]);
            let layer = if t >= 35 && r.chance(1, 3) { r.below(64) as u8 } else { 0 };
            let tid = if r.chance(1, 2) { 1 } else { r.range(1, 7) as u8 };
            vec![(t << 1) | (layer >> 5), ((layer & 0x1f) << 3) | tid]
        } else {
            let t = *r.pick(&[6u8, 9, 10, 11, 12, 13, 14, 15, 19, 20, 2, 3, 4, 16, 17, 18, 21, 22, 23, 24, 25, 28, 31, 1]);
            vec![((r.below(4) as u8) << 5) | t]
        };
        if !hevc && v[0] & 0x1f == 12 || hevc && (v[0] >> 1) & 0x3f == 38 {
            // filler data: ff bytes and the stop bit
            v.extend(std::iter::repeat(0xffu8).take(len));
            v.push(0x80);
        } else {
            v.extend_from_slice(&nal_body(r, len, true));
        }
        let at = r.usize_below(nals.len() + 1);
        nals.insert(at, v);
    }
}

/// Layouts no encoder emits but the contract admits ("any number/order/length of parameter-set
/// and slice NAL units"): parameter sets after the first slice, and one-byte NAL units.
fn odd_layouts(r: &mut Rng, nals: &mut Vec<Vec<u8>>, kind: FrameKind, decorate: bool, one_byte: u8) {
    if !decorate {
        return;
    }
    if kind == FrameKind::KeyCfg && r.chance(1, 10) {
        match r.below(3) {
            0 => nals.rotate_right(1), // the (last) slice first, parameter sets after it
            1 => nals.reverse(),
            _ => r.shuffle(nals),
        }
    }
    if r.chance(1, 12) {
        let at = r.usize_below(nals.len() + 1);
        nals.insert(at, vec![one_byte]);
    }
}

pub fn h265_frame(r: &mut Rng, kind: FrameKind, body_len: usize, decorate: bool) -> Vec<u8> {
    let mut nals: Vec<Vec<u8>> = Vec::new();
    let mk = |r: &mut Rng, typ: u8, len: usize| {
        let mut v = vec![typ << 1, 0x01];
        v.extend_from_slice(&nal_body(r, len, decorate));
        v
    };
    if r.chance(1, 5) {
        nals.push(vec![35 << 1, 0x01, 0x50]); // AUD
    }
    match kind {
        FrameKind::KeyCfg => {
            let vps = { let n = r.range(1, 24) as usize; mk(r, 32, n) };
            let sps_n = if r.chance(1, 8) { r.range(0, 12) as usize } else { r.range(13, 48) as usize };
            let sps = if r.chance(1, 4) {
                let mut v = vec![33 << 1, 0x01];
                v.extend(structured_sps_body(r, true, sps_n));
                v
            } else {
                mk(r, 33, sps_n)
            };
            let pps = { let n = r.range(1, 10) as usize; mk(r, 34, n) };
            let mut sets = vec![vps.clone(), sps.clone(), pps.clone()];
            if r.chance(1, 6) {
                r.shuffle(&mut sets);
            }
            // sometimes a type repeats (with different bytes) before all three types have been
            // seen: the FIRST instance of each type is the configuration
            let dup_after = if r.chance(1, 3) { Some(r.usize_below(2)) } else { None };
            for (i, s) in sets.into_iter().enumerate() {
                let t = (s[0] >> 1) & 0x3f;
                nals.push(s);
                if dup_after == Some(i) {
                    let n = r.range(13, 30) as usize;
                    nals.push(mk(r, t, n));
                }
            }
            if r.chance(1, 5) {
                nals.push({ let n = r.range(13, 30) as usize; mk(r, 33, n) }); // later differing SPS
                nals.push({ let n = r.range(1, 10) as usize; mk(r, 32, n) });
            }
            if r.chance(1, 6) {
                nals.push(mk(r, 39, 5)); // prefix SEI
            }
            // IDR_W_RADL, IDR_N_LP, CRA and, now and then, the BLA types (16..18: random access
            // points that the documented encode_video rule does NOT count as key frames)
            let t = *r.pick(&[19u8, 20, 19, 20, 21, 19, 20, 21, 16, 17, 18]);
            nals.push(mk(r, t, body_len));
        }
        FrameKind::KeyNoCfg => {
            if r.chance(1, 3) {
                let t = *r.pick(&[32u8, 33, 34]);
                nals.push(mk(r, t, 6));
                if r.chance(1, 2) {
                    let t2 = *r.pick(&[32u8, 33, 34]);
                    if t2 != t {
                        nals.push(mk(r, t2, 6));
                    }
                }
            }
            nals.push(mk(r, 19, body_len));
        }
        FrameKind::Delta => {
            let t = *r.pick(&[1u8, 0, 1, 8, 9, 1, 0, 16, 17, 18, 2, 5]);
            nals.push(mk(r, t, body_len));
        }
    }
    extra_units(r, &mut nals, true, decorate);
    odd_layouts(r, &mut nals, kind, decorate, 0x50);
    join_nals(r, &nals, decorate)
}

/// AV1 frame + the header struct it was generated from.
pub fn av1_frame(r: &mut Rng, kind: FrameKind, body_len: usize) -> av1::Av1Frame {
    match kind {
        FrameKind::KeyCfg => av1::gen_temporal_unit(r, true, true, body_len),
        FrameKind::KeyNoCfg => av1::gen_temporal_unit(r, true, false, body_len),
        FrameKind::Delta => av1::gen_temporal_unit(r, false, false, body_len),
    }
}

thread_local! {
    /// percentage of VP9 key frames generated in the compact form (header ends with the colour
    /// byte, nothing after it); only the call-acceptance checks switch this on
    static VP9_COMPACT_PCT: std::cell::Cell<u64> = const { std::cell::Cell::new(0) };
}

pub fn set_vp9_compact_pct(p: u64) {
    VP9_COMPACT_PCT.with(|c| c.set(p));
}

pub fn vp9_frame(r: &mut Rng, kind: FrameKind, body_len: usize) -> (Vec<u8>, Option<vp9::Vp9Fields>) {
    match kind {
        FrameKind::KeyCfg => {
            let mut f = vp9::gen_fields(r);
            if r.chance(VP9_COMPACT_PCT.with(|c| c.get()), 100) {
                // marker, two (three) header bytes, width, height, one colour byte and nothing
                // else: a key frame with a complete configuration; with the colour byte last, its
                // bits 2..3 are colour-space bits, not a render-size announcement
                f.render = None;
                f.color_space = r.below(8) as u8;
                let mut d = vec![0x49, 0x83, 0x42, (f.profile << 6) | (r.byte() & 0x0f), r.byte()];
                if f.profile >= 2 {
                    d.push(r.byte());
                }
                d.extend_from_slice(&vp9::varuint(f.width));
                d.extend_from_slice(&vp9::varuint(f.height));
                d.push(((f.bit_depth == 10) as u8) | ((f.color_space & 7) << 1) | ((f.transfer & 7) << 4) | ((f.matrix & 1) << 7));
                return (d, None);
            }
            (vp9::build_keyframe(&f, r, body_len), Some(f))
        }
        FrameKind::KeyNoCfg => {
            // key flag given by the caller but the bytes are not a VP9 frame of the accepted form
            let mut d = r.bytes(body_len.max(6));
            d[0] = 0x48;
            (d, None)
        }
        FrameKind::Delta => (vp9::delta_frame(r, body_len), None),
    }
}

/// Video frame bytes only.
pub fn video_frame(r: &mut Rng, codec: u8, kind: FrameKind, body_len: usize, decorate: bool) -> Vec<u8> {
    match codec {
        H264 => h264_frame(r, kind, body_len, decorate),
        H265 => h265_frame(r, kind, body_len, decorate),
        AV1 => av1_frame(r, kind, body_len).bytes,
        _ => vp9_frame(r, kind, body_len).0,
    }
}

pub const AAC_RATES: [u32; 13] = [96000, 88200, 64000, 48000, 44100, 32000, 24000, 22050, 16000, 12000, 11025, 8000, 7350];

thread_local! {
    /// Per-history ADTS stream style: (profile, sampling index, channel cfg, protection policy
    /// 0 = always CRC, 1 = never CRC, 2 = mixed). None = every frame draws its own header fields.
    static ADTS_STYLE: std::cell::Cell<Option<(u8, u8, u8, u8)>> = const { std::cell::Cell::new(None) };
}

/// Real streams keep their fixed header fields constant; set this per history.
pub fn set_adts_style(s: Option<(u8, u8, u8, u8)>) {
    ADTS_STYLE.with(|c| c.set(s));
}

pub fn random_adts_style(r: &mut Rng) -> Option<(u8, u8, u8, u8)> {
    if r.chance(1, 4) {
        return None;
    }
    let policy = match r.below(20) {
        0..=2 => 0,
        3..=12 => 1,
        _ => 2,
    };
    Some((r.below(4) as u8, r.below(13) as u8, r.range(1, 7) as u8, policy))
}

/// Valid ADTS frame with known payload.
pub fn adts_frame(r: &mut Rng, payload_len: usize, trailing: usize) -> (Vec<u8>, Vec<u8>) {
    let payload = r.bytes(payload_len.max(1));
    let (profile, sfi, ch, pa) = match ADTS_STYLE.with(|c| c.get()) {
        Some((p, s, c, policy)) => (p, s, c, match policy {
            0 => false,
            1 => true,
            _ => r.chance(1, 2),
        }),
        None => (r.below(4) as u8, r.below(13) as u8, r.range(1, 7) as u8, r.chance(3, 4)),
    };
    let mut f = build_adts(profile, sfi, ch, pa, &payload, None, 0, 0);
    if r.chance(1, 2) {
        let x = r.next_u64();
        crate::model::basic::scramble_adts_free_bits(&mut f, x);
    }
    if trailing > 0 {
        f.extend_from_slice(&r.bytes(trailing));
    }
    (f, payload)
}

/// Invalid ADTS variants (each violates exactly one documented structural rule).
pub fn bad_adts(r: &mut Rng) -> Vec<u8> {
    let payload = r.bytes_range(1, 20);
    match r.below(10) {
        8 => {
            // header only (declared length == header length), either protection mode
            let pa = r.chance(1, 2);
            build_adts(1, 3, 2, pa, &[], None, 0, 0)
        }
        9 => {
            // declared length one below / above the header length, buffer long enough
            let pa = r.chance(1, 2);
            let hdr = if pa { 7 } else { 9 };
            let d = if r.chance(1, 2) { hdr - 1 } else { hdr };
            build_adts(1, 3, 2, pa, &payload, Some(d), 0, 0)
        }
        0 => r.bytes_range(1, 6), // too short
        1 => {
            let mut f = build_adts(1, 3, 2, true, &payload, None, 0, 0);
            f[0] = 0xfe;
            f
        }
        2 => build_adts(1, 3, 2, true, &payload, None, 1, 0), // MPEG-2 id
        3 => build_adts(1, 3, 2, true, &payload, None, 0, r.range(1, 3) as u8), // layer
        4 => build_adts(1, r.range(13, 15) as u8, 2, true, &payload, None, 0, 0),
        5 => build_adts(1, 3, 0, true, &payload, None, 0, 0), // channel cfg 0
        6 => build_adts(1, 3, 2, true, &payload, Some(r.range(0, 6) as usize), 0, 0), // frame_length < header
        _ => build_adts(1, 3, 2, true, &payload, Some(7 + payload.len() + r.range(1, 50) as usize), 0, 0), // > buffer
    }
}

/// Valid Opus packet: code 0..2 plain, or a CBR code-3 packet (with / without padding) that
/// satisfies RFC 6716 R1..R7.
pub fn opus_packet(r: &mut Rng, len: usize) -> Vec<u8> {
    let config = r.below(32) as u8;
    let stereo = r.below(2) as u8;
    let code = match r.below(10) {
        0 => 1,
        1 => 2,
        2 | 3 => 3,
        _ => 0,
    };
    let mut p = vec![(config << 3) | (stereo << 2) | code];
    if code == 3 {
        let per = crate::model::basic::opus_frame_samples(config);
        let max = (5760 / per).min(48) as u64;
        let count = r.range(1, max.max(1)) as u8;
        let padded = r.chance(1, 2);
        p.push(((padded as u8) << 6) | count);
        let mut pad = 0usize;
        if padded {
            match r.below(3) {
                0 => {
                    p.push(0);
                }
                1 => {
                    pad = r.range(1, 20) as usize;
                    p.push(pad as u8);
                }
                _ => {
                    pad = 254 + 3;
                    p.push(255);
                    p.push(3);
                }
            }
        }
        let each = (len / count as usize).clamp(1, 40);
        let n = each * count as usize;
        p.extend_from_slice(&r.bytes(n));
        p.extend(std::iter::repeat(0u8).take(pad));
        return p;
    }
    let mut body = r.bytes(len.max(2));
    if code == 1 && body.len() % 2 == 1 {
        body.push(7);
    }
    if code == 2 {
        body[0] = 1; // first frame length 1
    }
    p.extend_from_slice(&body);
    p
}

pub fn bad_opus(r: &mut Rng) -> Vec<u8> {
    let toc = (r.byte() & 0xfc) | 3;
    if r.chance(1, 2) {
        vec![toc] // code 3 without count byte
    } else {
        let mut v = vec![toc, r.byte() & 0xc0]; // count = 0
        v.extend_from_slice(&r.bytes(4));
        v
    }
}

pub fn audio_frame(r: &mut Rng, a: &AudioCfg, len: usize) -> Vec<u8> {
    if a.is_opus() {
        opus_packet(r, len)
    } else {
        let tr = if r.chance(1, 10) { r.range(1, 9) as usize } else { 0 };
        // now and then a frame whose 13-bit length field needs its upper bits (2 KiB .. 8191)
        let len = if r.chance(1, 40) { *r.pick(&[2041usize, 2042, 2048, 2049, 3000, 4089, 4096, 6000, 8182]) - if r.chance(1, 2) { 0 } else { r.usize_below(3) } } else { len };
        let mut f = adts_frame(r, len, tr).0;
        if tr == 0 && r.chance(1, 30) {
            // bytes after the declared frame that themselves form one or two complete ADTS frames
            for _ in 0..r.range(1, 2) {
                let n = r.range(1, 24) as usize;
                let more = adts_frame(r, n, 0).0;
                f.extend_from_slice(&more);
            }
        }
        f
    }
}

pub fn bad_audio_frame(r: &mut Rng, a: &AudioCfg) -> Vec<u8> {
    if a.is_opus() {
        bad_opus(r)
    } else {
        bad_adts(r)
    }
}

/// Hostile byte strings for any frame argument.
pub fn hostile_bytes(r: &mut Rng, valid: &[u8]) -> Vec<u8> {
    match r.below(9) {
        0 => Vec::new(),
        1 => {
            // 1..8 bytes over a small alphabet rich in start-code / marker bytes
            let al = [0x00u8, 0x01, 0x02, 0x03, 0xff, 0x49, 0x83, 0x42, 0x0a, 0x12, 0x32, 0x67, 0x40];
            (0..r.range(1, 8)).map(|_| *r.pick(&al)).collect()
        }
        2 | 3 => {
            // truncation of a valid frame
            if valid.is_empty() {
                vec![0]
            } else {
                valid[..r.usize_below(valid.len())].to_vec()
            }
        }
        4 | 5 => {
            // bit flips
            let mut v = valid.to_vec();
            if v.is_empty() {
                return vec![0xff];
            }
            for _ in 0..r.range(1, 4) {
                let i = if r.chance(1, 2) { r.usize_below(v.len().min(24)) } else { r.usize_below(v.len()) };
                v[i] ^= 1 << r.below(8);
            }
            v
        }
        6 => r.bytes_range(1, 64),
        7 => {
            // start codes only / zeros
            let n = r.range(1, 12) as usize;
            (0..n).map(|i| if r.chance(1, 4) { 1 } else { (i % 7 == 6) as u8 }).collect()
        }
        _ => {
            // splice: valid prefix + noise
            let mut v = valid[..valid.len().min(r.range(1, 16) as usize)].to_vec();
            v.extend_from_slice(&r.bytes_range(0, 16));
            v
        }
    }
}
