//! Cases and evaluation for C12..C14, C16..C20.

use crate::mon::{Obs, Violation};
use crate::run::{Case, Tier};
use crate::util::Rng;

pub fn gen_case2(_prop: &str, _tier: Tier, _seed: u64, _idx: u64, _r: &mut Rng) -> Option<Case> {
    None
}

pub fn eval_case2(_prop: &str, _case: &Case, _obs: &mut Obs) -> Vec<Violation> {
    Vec::new()
}
