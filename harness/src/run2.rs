//! Cases and evaluation for C12..C14, C16..C20.

use crate::exec::{run, run_frag, ExecOpts};
use crate::gen::frag::{gen_frag_history, FragOpts};
use crate::gen::frames::*;
use crate::gen::hist::{gen_cfg, gen_history, gen_history_for, GenOpts};
use crate::hist::*;
use crate::mon::c07::Side;
use crate::mon::c12::FreeOp;
use crate::mon::c20::{CliCase, FileSpec};
use crate::mon::{self, Analysis, Obs, Violation};
use crate::run::{Case, Tier};
use crate::util::Rng;

const DAYS_TO_9999: u64 = 2_932_897;
const DAY_CHUNK: u64 = 2048;
const LANG_CHUNK: u64 = 512;
const STR_CHUNK: u64 = 4096;

fn c14_layout() -> (u64, u64, u64) {
    let n5 = (mon::c14::space_size(5, mon::c14::AB5_MAXLEN) + STR_CHUNK - 1) / STR_CHUNK;
    let n3 = (mon::c14::space_size(3, mon::c14::AB3_MAXLEN) + STR_CHUNK - 1) / STR_CHUNK;
    // ADTS: 2 protection modes x 4 buffer deltas x 16 chunks of 512 frame lengths
    (n5, n3, 2 * 4 * 16 + 2 * 16)
}

pub fn c14_enumeration_cases() -> u64 {
    let (a, b, c) = c14_layout();
    a + b + c
}

fn hostile_meta(r: &mut Rng, cfg: &mut Cfg) {
    cfg.meta = true;
    cfg.path = if r.chance(1, 2) { 4 } else { 0 };
    if r.chance(1, 2) {
        cfg.title = Some(match r.below(4) {
            0 => String::new(),
            1 => "x".repeat(100_000),
            2 => "\u{0}\u{10FFFF}\u{FEFF}".repeat(7),
            _ => crate::gen::hist::titles(r),
        });
    }
    if r.chance(2, 3) {
        cfg.ctime = Some(*r.pick(&[0u64, 1, 86_399, 86_400, 951_782_400, 4_102_444_800, 253_402_300_799, 253_402_300_800, 1 << 40, 1 << 53, u64::MAX / 2, u64::MAX - 1, u64::MAX]));
    }
    if r.chance(2, 3) {
        cfg.lang = Some(match r.below(14) {
            0 => String::new(),
            1 => "e".into(),
            2 => "en".into(),
            3 => "ENG".into(),
            4 => "engl".into(),
            5 => "日本語".into(),
            6 => "\u{0}\u{0}\u{0}".into(),
            7 => "~{}".into(),
            _ => crate::gen::hist::hostile_lang(r),
        });
    }
}

pub fn gen_case2(prop: &str, tier: Tier, _seed: u64, idx: u64, r: &mut Rng) -> Option<Case> {
    let thorough = tier == Tier::Thorough;
    Some(match prop {
        "C12" => match r.below(21) {
            20 => {
                // ADTS declared-length sweep near the header sizes and at random places
                let lo = if r.chance(2, 3) { 0 } else { r.below(8100) as u32 };
                Case::Adts { protection_absent: r.chance(1, 2), delta: *r.pick(&[-1i32, 0, 1, 100]), lo, hi: lo + 24, mix: r.chance(1, 3) }
            }
            0..=8 => {
                let small = std::env::var("VH_SMALL").is_ok();
                let o = GenOpts { hostile_pct: 50, hostile_cfg_pct: 25, reorder_pct: 30, audio_pct: 70, meta_pct: 30, encode_pct: 35, finish_games: true, max_video: if small { 3 } else { 8 }, max_audio: if small { 2 } else { 8 }, ..Default::default() };
                let mut cfg = gen_cfg(r, &o);
                if r.chance(1, 3) {
                    hostile_meta(r, &mut cfg);
                }
                if r.chance(1, 30) {
                    cfg.video = false;
                }
                if r.chance(1, 10) {
                    cfg.fps_bits = (*r.pick(&[0.0f64, -1.0, f64::NAN, f64::INFINITY, 1e300])).to_bits();
                }
                Case::Hist { h: gen_history_for(r, &o, cfg), side: Side::default() }
            }
            9..=13 => {
                let o = FragOpts { hostile_cfg: true, hostile_values: true, bad_dts_pct: 15, constant_interval_pct: 5, max_ops: 30, ..Default::default() };
                let (mut h, side) = gen_frag_history(r, &o);
                if r.chance(1, 6) {
                    // builder without the codec parameters
                    h.cfg.via_builder = true;
                    match r.below(4) {
                        0 => h.cfg.sps = None,
                        1 => h.cfg.pps = None,
                        2 => h.cfg.vps = None,
                        _ => {
                            h.cfg.av1_seq = None;
                            h.cfg.vp9 = None;
                        }
                    }
                }
                if r.chance(1, 6) {
                    // hostile sequence header / parameter sets handed to the builder
                    let n = r.range(0, 40) as usize;
                    h.cfg.av1_seq = if r.chance(1, 3) { Some(if r.chance(1, 4) { crate::model::av1::reserved_uvlc_seq_unit(r) } else { crate::model::av1::truncated_seq_unit(r) }) } else { h.cfg.av1_seq.as_ref().map(|s| hostile_bytes(r, s)).or(Some(r.bytes(n))) };
                }
                h.cfg.lang = if r.chance(1, 3) { Some(crate::gen::hist::hostile_lang(r)) } else { None };
                Case::Frag { h, side: Side { av1: side, vp9: None, op: 0 } }
            }
            _ => {
                let codec = r.below(4) as u8;
                let kind = *r.pick(&[FrameKind::KeyCfg, FrameKind::KeyNoCfg, FrameKind::Delta]);
                let valid = video_frame(r, codec, kind, 24, true);
                let data = if codec == AV1 && r.chance(1, 3) {
                    if r.chance(1, 4) { crate::model::av1::reserved_uvlc_seq_unit(r) } else { crate::model::av1::truncated_seq_unit(r) }
                } else if r.chance(1, 5) {
                    valid.clone()
                } else {
                    hostile_bytes(r, &valid)
                };
                match r.below(6) {
                    0 | 1 => Case::Free(FreeOp::CodecBytes { data, from: r.below(40) as usize }),
                    2 => Case::Free(FreeOp::ValidateVideoFrame { codec, data, key: r.chance(1, 2) }),
                    3 => {
                        let a = AudioCfg { kind: if r.chance(1, 2) { 7 } else { 1 }, rate: 48_000, channels: 2 };
                        let good = audio_frame(r, &a, 12);
                        let d = if r.chance(1, 3) { good } else { hostile_bytes(r, &good) };
                        Case::Free(FreeOp::ValidateAudioFrame { kind: *r.pick(&[0u8, 1, 3, 7]), data: d })
                    }
                    4 => Case::Free(FreeOp::ValidateConfigs {
                        codec,
                        w: *r.pick(&[0u32, 1, 319, 320, 4096, 4097, u32::MAX]),
                        h: *r.pick(&[0u32, 239, 240, 2160, 2161, u32::MAX]),
                        fps_bits: (*r.pick(&[0.0f64, -1.0, 30.0, 120.0, 120.1, f64::NAN, f64::INFINITY])).to_bits(),
                        akind: *r.pick(&[0u8, 1, 7]),
                        rate: *r.pick(&[0u32, 1, 48_000, 192_000, 192_001, u32::MAX]),
                        ch: *r.pick(&[0u8, 1, 8, 9, 255]),
                        vframe: data,
                        aframe: r.bytes_range(0, 12),
                        partial: r.byte(),
                    }),
                    _ => {
                        let s = if r.chance(1, 2) {
                            crate::gen::hist::titles(r)
                        } else {
                            // codec-name soup: known names and profile suffixes, separators, and
                            // multi-byte characters in every position
                            let toks = ["aac", "AAC", "Aac", "opus", "h264", "H.265", "hevc", "av1", "vp9", "he", "hev2", "lc", "main", "ssr", "ltp", "none", "-", "_", " ", ".", "é", "ß", "ａ", "音", "😀", "\u{0301}", "", "\t"];
                            (0..r.range(1, 5)).map(|_| *r.pick(&toks)).collect::<String>()
                        };
                        Case::Free(FreeOp::Values { a: r.byte(), b: r.byte(), c: r.next_u64() as u16, s })
                    }
                }
            }
        },
        "C13" => {
            // representative histories: shape chosen by index so that every layout is covered
            let shape = idx % 12;
            let small = std::env::var("VH_SMALL").is_ok();
            let o = GenOpts { hostile_pct: 0, reorder_pct: if shape % 3 == 2 { 100 } else { 0 }, audio_pct: if shape % 2 == 1 { 100 } else { 0 }, meta_pct: if shape % 4 >= 2 { 100 } else { 0 }, encode_pct: 0, consuming: false, max_video: if shape == 0 { 1 } else if small { 2 } else { 6 }, max_audio: if small { 2 } else { 6 }, big_frames: thorough && shape == 11 && !small, ..Default::default() };
            let mut h = gen_history(r, &o);
            if shape == 4 {
                // zero-frame file
                h.ops.retain(|op| op.is_finish());
            }
            h.cfg.fast_start = Some(shape < 6);
            if !small && idx % 97 == 5 {
                // a recording of nine thousand tiny frames (thresholds in the thousands of samples)
                let mut cfg = Cfg::basic(VP9);
                cfg.fast_start = Some(idx % 2 == 1);
                let mut ops = Vec::new();
                for i in 0..9000u32 {
                    let kind = if i == 0 { FrameKind::KeyCfg } else { FrameKind::Delta };
                    let f = if i < 2 { crate::gen::frames::vp9_frame(r, kind, 3).0 } else { vec![0x49, 0x83, 0x42, 0x50 | (i & 0xf) as u8, (i >> 4) as u8, i as u8] };
                    ops.push(Op::wv(i as f64 / 30.0, f, i == 0));
                }
                ops.push(Op::Finish(FinishKind::InPlaceStats));
                h = History { cfg, ops };
            }
            if !small && idx % 97 == 11 {
                // a recording with one access unit of more than a mebibyte (chunked output paths)
                let mut cfg = Cfg::basic(VP9);
                cfg.fast_start = Some(idx % 2 == 1);
                let mut ops = Vec::new();
                for i in 0..4u32 {
                    let kind = if i == 0 { FrameKind::KeyCfg } else { FrameKind::Delta };
                    let mut f = crate::gen::frames::vp9_frame(r, kind, 3).0;
                    if i == 2 {
                        let n = *r.pick(&[(1usize << 20) + 1, 1_300_000, (2 << 20) + 17, 2_700_000]);
                        f.extend(r.bytes(n));
                    }
                    ops.push(Op::wv(i as f64 / 30.0, f, i == 0));
                }
                ops.push(Op::Finish(FinishKind::InPlaceStats));
                h = History { cfg, ops };
            }
            // after the (first) finish, call every kind of entry point again
            let kf = video_frame(r, h.cfg.vcodec, FrameKind::KeyCfg, 8, false);
            h.ops.retain(|op| !op.is_finish());
            h.ops.push(Op::Finish(FinishKind::InPlaceStats));
            h.ops.push(Op::Finish(FinishKind::InPlace));
            h.ops.push(Op::wv(1e6, kf.clone(), true));
            h.ops.push(Op::wvd(1e6 + 1.0, 1e6 + 1.0, kf.clone(), true));
            h.ops.push(Op::EncodeVideo { data: kf, dur_ms: 33 });
            if let Some(a) = h.cfg.audio_effective().cloned() {
                h.ops.push(Op::wa(1e6, audio_frame(r, &a, 8)));
                h.ops.push(Op::EncodeAudio { data: audio_frame(r, &a, 8), samples: 1024 });
            }
            h.ops.push(Op::Finish(FinishKind::InPlaceStats));
            Case::FaultAll { h, level: thorough as u8 }
        }
        "C14" => {
            let (n5, n3, na) = c14_layout();
            if idx < n5 {
                Case::Enum { what: "ab5".into(), lo: idx * STR_CHUNK, hi: ((idx + 1) * STR_CHUNK).min(mon::c14::space_size(5, mon::c14::AB5_MAXLEN)) }
            } else if idx < n5 + n3 {
                let k = idx - n5;
                Case::Enum { what: "ab3".into(), lo: k * STR_CHUNK, hi: ((k + 1) * STR_CHUNK).min(mon::c14::space_size(3, mon::c14::AB3_MAXLEN)) }
            } else if idx < n5 + n3 + na {
                let k = idx - n5 - n3;
                let chunk = (k % 16) as u32;
                if k < 128 {
                    let delta = [-1i32, 0, 1, 100][((k / 16) % 4) as usize];
                    Case::Adts { protection_absent: k / 64 == 0, delta, lo: chunk * 512, hi: (chunk + 1) * 512, mix: false }
                } else {
                    // streams whose frames alternate between CRC-protected and unprotected headers
                    Case::Adts { protection_absent: true, delta: if k < 144 { 0 } else { 100 }, lo: chunk * 512, hi: (chunk + 1) * 512, mix: true }
                }
            } else {
                Case::Enum { what: "constructive".into(), lo: idx, hi: idx + 64 }
            }
        }
        "C16" => return Some(c16_case(r, idx)),
        "C17" => {
            let small = std::env::var("VH_SMALL").is_ok();
            let threads_only = std::env::var("VH_THREADS_ONLY").is_ok() || small;
            let mut o = GenOpts { hostile_pct: 10, reorder_pct: 30, audio_pct: 60, meta_pct: 40, encode_pct: 25, consuming: true, max_video: 8, max_audio: 8, ..Default::default() };
            if small {
                o.max_video = 3;
                o.max_audio = 2;
                o.decorate = false;
            }
            match if threads_only { 0 } else { idx % 4 } {
                0 | 1 => {
                    let n = if small { 3 } else { r.range(4, 24) as usize };
                    let hs: Vec<History> = (0..n).map(|_| gen_history(r, &o)).collect();
                    let threads = if small { 3 } else { *r.pick(&[1u32, 2, 4, 8, 16]) };
                    Case::Threads { hs, threads, seed: r.next_u64() }
                }
                2 => {
                    // a third of these keep calling after the first finish (further finishes,
                    // writes): what the equivalent finish entry points leave behind must agree too
                    let mut o3 = o.clone();
                    o3.finish_games = r.chance(1, 3);
                    let mut h = gen_history(r, &o3);
                    if h.cfg.lang.is_some() && r.chance(1, 4) {
                        // what command lines and OS locales hand over: upper / mixed case, region
                        // suffixes (whatever is stored, both ways of setting it must agree)
                        h.cfg.lang = Some(r.pick(&["ENG", "Eng", "en-US", "pt_BR", "DEU"]).to_string());
                    }
                    Case::Hist { h, side: Side::default() }
                }
                _ => {
                    // encode-only history for the convenience-path comparison
                    let mut o2 = o.clone();
                    o2.encode_pct = 100;
                    o2.reorder_pct = 0;
                    o2.nonzero_start_pct = 0;
                    o2.hostile_pct = 0;
                    o2.audio_offset = false;
                    Case::Hist { h: gen_history(r, &o2), side: Side { av1: None, vp9: Some(crate::model::vp9::gen_fields(r)), op: 0 } }
                }
            }
        }
        "C18" => {
            let stride = if thorough { 1 } else { 23 };
            let day_chunks = (DAYS_TO_9999 / stride + DAY_CHUNK - 1) / DAY_CHUNK;
            let lang_chunks = (26 * 26 * 26 + LANG_CHUNK - 1) / LANG_CHUNK;
            if idx < lang_chunks {
                Case::Enum { what: "langs".into(), lo: idx * LANG_CHUNK, hi: ((idx + 1) * LANG_CHUNK).min(26 * 26 * 26) }
            } else if idx < lang_chunks + day_chunks {
                let k = idx - lang_chunks;
                Case::Enum { what: format!("days/{}", stride), lo: k * DAY_CHUNK, hi: ((k + 1) * DAY_CHUNK).min(DAYS_TO_9999 / stride + 1) }
            } else if r.chance(1, 25) {
                // very long recordings (64-bit header forms) must carry the metadata as well
                let sc = *r.pick(&[1u64, 2, 3, 4, 10]);
                match c16_case(r, sc) {
                    Case::Hist { mut h, side } => {
                        h.cfg.meta = true;
                        h.cfg.lang = Some(crate::gen::hist::langs(r));
                        if r.chance(1, 2) {
                            h.cfg.title = Some(crate::gen::hist::titles(r));
                        }
                        if r.chance(1, 2) {
                            h.cfg.ctime = Some(r.below(4_102_444_800));
                        }
                        Case::Hist { h, side }
                    }
                    other => other,
                }
            } else {
                let o = GenOpts { hostile_pct: 0, reorder_pct: 25, audio_pct: 60, meta_pct: 100, encode_pct: 0, consuming: false, max_video: 6, max_audio: 6, ..Default::default() };
                let mut h = gen_history(r, &o);
                h.cfg.meta = true;
                if r.chance(1, 8) {
                    h.cfg.lang = Some(match r.below(7) {
                        0 => String::new(),
                        1 => "EN".into(),
                        2 => "engl".into(),
                        3 => "é".into(),
                        4 => "e1g".into(),
                        _ => crate::gen::hist::hostile_lang(r),
                    });
                }
                if r.chance(1, 3) {
                    // creation time / language through their own setters, now and then after
                    // decoy calls of the same setters
                    h.cfg.path = if r.chance(1, 3) { 12 } else { 4 };
                } else if r.chance(1, 3) {
                    // the chainable Metadata setters called title-last
                    h.cfg.path = 32;
                }
                if r.chance(1, 40) {
                    h.cfg.title = Some("t".repeat(100_000));
                }
                if r.chance(1, 25) {
                    // a recording finished before any frame arrived still carries its metadata
                    h.ops.retain(|op| op.is_finish());
                    if r.chance(1, 2) {
                        h.cfg.audio = None;
                    }
                }
                Case::Hist { h, side: Side::default() }
            }
        }
        "C19" => {
            if idx % 3 == 2 {
                let o = FragOpts { max_ops: 10, hostile_cfg: false, ..Default::default() };
                let (mut h, side) = gen_frag_history(r, &o);
                h.ops.insert(0, FOp::Init);
                Case::Frag { h, side: Side { av1: side, vp9: None, op: 0 } }
            } else if r.chance(1, 12) {
                // very long recordings: the 64-bit (version 1) forms of mvhd / mdhd appear
                let sc = *r.pick(&[1u64, 2, 3, 4, 10, 6, 6]);
                return Some(c16_case(r, sc));
            } else {
                let o = GenOpts { hostile_pct: 0, reorder_pct: 30, audio_pct: 65, meta_pct: 50, encode_pct: 0, consuming: false, max_video: 5, max_audio: 5, ..Default::default() };
                let mut cfg = gen_cfg(r, &o);
                cfg.width = *r.pick(&[1u32, 16, 320, 640, 1920, 4096, 65_535]);
                cfg.height = *r.pick(&[1u32, 16, 240, 480, 1080, 2160, 65_535]);
                if r.chance(1, 2) {
                    cfg.width = r.any_dim();
                    cfg.height = r.any_dim();
                }
                if let Some(a) = cfg.audio.as_mut() {
                    a.channels = *r.pick(&[1u16, 2, 2, 3, 6, 8, 255]);
                    if !a.is_opus() {
                        a.rate = *r.pick(&AAC_RATES);
                    }
                }
                Case::Hist { h: gen_history_for(r, &o, cfg), side: Side::default() }
            }
        }
        "C20" => Case::Cli(c20_case(r)),
        _ => return None,
    })
}

fn ticks_s(t: u64) -> f64 {
    t as f64 / 90_000.0
}

/// Boundary scenarios: each pushes one derived quantity to within 2 of a field limit, from both sides.
pub fn c16_case(r: &mut Rng, idx: u64) -> Case {
    let mut cfg = Cfg::basic(*r.pick(&[H264, H265, AV1, VP9]));
    cfg.fast_start = Some(r.chance(1, 2));
    // the builder aliases must enforce the same limits as video() / audio()
    cfg.path = if r.chance(1, 3) { r.below(4) as u8 } else { 0 };
    let kf = |r: &mut Rng, c: u8| video_frame(r, c, FrameKind::KeyCfg, 8, false);
    let df = |r: &mut Rng, c: u8| video_frame(r, c, FrameKind::Delta, 6, false);
    let eps = *r.pick(&[-2i64, -1, 0, 1, 2]);
    let scenario = idx % 15;
    let mut ops: Vec<Op> = Vec::new();
    match scenario {
        14 => {
            // a recording of several days: both tracks run far beyond 2^32 ticks after the first
            // frame, audio and video alternating irregularly (every single gap fits 32 bits)
            cfg.audio = Some(AudioCfg { kind: 7, rate: 48_000, channels: 2 });
            let mut calls: Vec<(u64, bool)> = Vec::new();
            for audio in [false, true] {
                let mut t = if audio { r.below(2) * r.below(90_000) } else { 0 };
                for _ in 0..r.range(3, 7) {
                    calls.push((t, audio));
                    t += *r.pick(&[900_000_000u64, 3_600_000_000, 4_000_000_000, u32::MAX as u64 - 1, 90_000 * 45_000]) - r.below(1000);
                }
            }
            // video wins ties; calls in timestamp order
            calls.sort_by_key(|&(t, a)| (t, a));
            let mut first = true;
            for (t, audio) in calls {
                if audio {
                    ops.push(Op::wa(ticks_s(t), opus_packet(r, 8)));
                } else {
                    let f = if first { kf(r, cfg.vcodec) } else { df(r, cfg.vcodec) };
                    ops.push(Op::wv(ticks_s(t), f, first));
                    first = false;
                }
            }
        }
        0 => {
            // single video gap around 2^32 ticks
            let g = ((1i64 << 32) + eps - 1) as u64;
            let t0 = r.below(1000);
            match r.below(3) {
                0 => {
                    ops.push(Op::wv(ticks_s(t0), kf(r, cfg.vcodec), true));
                    ops.push(Op::wv(ticks_s(t0 + g), df(r, cfg.vcodec), false));
                    ops.push(Op::wv(ticks_s(t0 + g + 3000), df(r, cfg.vcodec), false));
                }
                k => {
                    // the same decode-time gap with a composition offset on the frames around it
                    // (k = 1: presentation after decode, k = 2: presentation before decode)
                    let off = *r.pick(&[1u64, 3000, 90_000, 200_000]);
                    let (p, d) = if k == 1 { (off, 0) } else { (0, off) };
                    ops.push(Op::wvd(ticks_s(t0 + off + p), ticks_s(t0 + off + d), kf(r, cfg.vcodec), true));
                    ops.push(Op::wvd(ticks_s(t0 + off + g + p), ticks_s(t0 + off + g + d), df(r, cfg.vcodec), false));
                    ops.push(Op::wvd(ticks_s(t0 + off + g + 3000 + p), ticks_s(t0 + off + g + 3000 + d), df(r, cfg.vcodec), false));
                }
            }
        }
        1 => {
            // audio gap around 2^32 ticks
            cfg.audio = Some(AudioCfg { kind: 7, rate: 48_000, channels: 2 });
            let g = ((1i64 << 32) + eps - 1) as u64;
            ops.push(Op::wv(0.0, kf(r, cfg.vcodec), true));
            ops.push(Op::wa(0.0, opus_packet(r, 8)));
            ops.push(Op::wa(ticks_s(g), opus_packet(r, 8)));
            ops.push(Op::wa(ticks_s(g + 960), opus_packet(r, 8)));
        }
        2 | 3 => {
            // total duration across 2^32 ticks with k frames
            let k = if scenario == 2 { 3u64 } else { 50 };
            let total = ((1i64 << 32) + eps * 3 + r.range(0, 10) as i64 - 5) as u64;
            let step = total / (k - 1);
            for i in 0..k {
                let f = if i == 0 { kf(r, cfg.vcodec) } else { df(r, cfg.vcodec) };
                ops.push(Op::wv(ticks_s(i * step), f, i == 0));
            }
        }
        4 => {
            // movie duration in ms across 2^32: ~91 maximal gaps
            let g = u32::MAX as u64 - r.below(3);
            let n = 89 + r.below(5);
            for i in 0..n {
                let f = if i == 0 { kf(r, cfg.vcodec) } else { df(r, cfg.vcodec) };
                ops.push(Op::wv(ticks_s(i * g), f, i == 0));
            }
        }
        5 => {
            // |pts - dts| across 2^31
            let d = ((1i64 << 31) + eps - 1) as u64;
            if r.chance(1, 2) {
                ops.push(Op::wvd(ticks_s(d), 0.0, kf(r, cfg.vcodec), true));
                ops.push(Op::wvd(ticks_s(d + 3000), ticks_s(3000), df(r, cfg.vcodec), false));
            } else {
                // negative offset: dts far ahead of pts
                ops.push(Op::wvd(0.0, ticks_s(d + 1), kf(r, cfg.vcodec), true));
                ops.push(Op::wvd(ticks_s(3000), ticks_s(d + 1 + 3000), df(r, cfg.vcodec), false));
            }
        }
        6 => {
            // parameter sets of 65535 / 65536 bytes inside the first keyframe (H.264 / H.265)
            cfg.vcodec = if r.chance(1, 2) { H264 } else { H265 };
            let big = (65_535i64 + (eps.clamp(-1, 1))) as usize;
            let body: Vec<u8> = r.bytes(big - 1).into_iter().map(|x| x | 4).collect();
            let mut frame = Vec::new();
            let which = r.below(3);
            let push = |frame: &mut Vec<u8>, hdr: &[u8], body: &[u8]| {
                frame.extend_from_slice(&[0, 0, 0, 1]);
                frame.extend_from_slice(hdr);
                frame.extend_from_slice(body);
            };
            let small = [0x11u8, 0x22, 0x33, 0x44];
            if cfg.vcodec == H264 {
                // hdr is one byte: body of big-1 gives a NAL of `big` bytes
                push(&mut frame, &[0x67], if which == 0 { &body } else { &small });
                push(&mut frame, &[0x68], if which != 0 { &body } else { &small });
                push(&mut frame, &[0x65], &small);
            } else {
                let b2 = &body[..big - 2];
                push(&mut frame, &[0x40, 1], if which == 0 { b2 } else { &small });
                push(&mut frame, &[0x42, 1], if which == 1 { b2 } else { &small });
                push(&mut frame, &[0x44, 1], if which == 2 { b2 } else { &small });
                push(&mut frame, &[0x26, 1], &small);
            }
            ops.push(Op::wv(0.0, frame, true));
        }
        7 => {
            // dimensions 65535 / 65536
            cfg.width = *r.pick(&[65_535u32, 65_536, 65_537, 1 << 17, 0]);
            cfg.height = *r.pick(&[65_535u32, 65_536, 480, 0]);
            ops.push(Op::wv(0.0, kf(r, cfg.vcodec), true));
        }
        8 => {
            // audio channel counts / sample rates at the field limits
            let opus = r.chance(1, 2);
            cfg.audio = Some(AudioCfg { kind: if opus { 7 } else { 1 }, rate: *r.pick(&[65_535u32, 65_536, 96_000, 88_200, 48_000, 192_000]), channels: *r.pick(&[2u16, 255, 256, 257, 65_535]) });
            ops.push(Op::wv(0.0, kf(r, cfg.vcodec), true));
            let a = cfg.audio.clone().unwrap();
            ops.push(Op::wa(0.0, audio_frame(r, &a, 8)));
        }
        9 => {
            // timestamps around 2^53 and 2^64 ticks
            let t = *r.pick(&[2f64.powi(53) / 90_000.0, 2f64.powi(53) / 90_000.0 * 1.5, 2f64.powi(64) / 90_000.0, 2f64.powi(64) / 90_000.0 * 2.0, 1e300]);
            ops.push(Op::wv(t, kf(r, cfg.vcodec), true));
            ops.push(Op::wv(t * 1.000_000_1 + 1.0, df(r, cfg.vcodec), false));
        }
        10 => {
            // audio track longer than the video track (movie duration = longest track)
            cfg.audio = Some(AudioCfg { kind: 7, rate: 48_000, channels: 2 });
            ops.push(Op::wv(0.0, kf(r, cfg.vcodec), true));
            ops.push(Op::wv(1.0 / 30.0, df(r, cfg.vcodec), false));
            let n = r.range(3, 60);
            for j in 0..n {
                ops.push(Op::wa(j as f64 * 0.02 * r.range(1, 40) as f64, opus_packet(r, 8)));
            }
            // keep non-decreasing
            let mut last = 0.0f64;
            for op in ops.iter_mut() {
                if let Op::WriteAudio { pts, .. } = op {
                    let p = f64::from_bits(*pts).max(last);
                    last = p;
                    *pts = p.to_bits();
                }
            }
        }
        11 | 12 => {
            // fragmented: DTS gap across 2^32, |pts-dts| across 2^31, dimensions, set lengths
            let o = FragOpts { max_ops: 6, hostile_cfg: false, ..Default::default() };
            let (mut h, side) = gen_frag_history(r, &o);
            h.ops.clear();
            h.ops.push(FOp::Init);
            let which = r.below(4);
            match which {
                0 => {
                    let g = ((1i64 << 32) + eps - 1) as u64;
                    h.ops.push(FOp::Write { pts: 0, dts: 0, data: vec![1, 2, 3], sync: true });
                    h.ops.push(FOp::Write { pts: g, dts: g, data: vec![4, 5], sync: false });
                    h.ops.push(FOp::Write { pts: g + 10, dts: g + 10, data: vec![6], sync: false });
                }
                1 => {
                    let d = ((1i64 << 31) + eps - 1) as u64;
                    h.ops.push(FOp::Write { pts: d, dts: 0, data: vec![1, 2, 3], sync: true });
                    h.ops.push(FOp::Write { pts: 0, dts: d + 1, data: vec![4, 5], sync: false });
                }
                2 => {
                    h.cfg.width = *r.pick(&[65_535u32, 65_536, 65_537]);
                    h.cfg.height = *r.pick(&[65_535u32, 65_536, 1080]);
                    h.ops.push(FOp::Write { pts: 0, dts: 0, data: vec![1], sync: true });
                }
                _ => {
                    let big = (65_535i64 + eps.clamp(-1, 1)) as usize;
                    h.cfg.vcodec = if r.chance(1, 2) { H264 } else { H265 };
                    h.cfg.av1_seq = None;
                    h.cfg.vp9 = None;
                    let (n1, n2, n3) = (if r.chance(1, 2) { big } else { 10 }, if r.chance(1, 2) { big } else { 5 }, if r.chance(1, 2) { big } else { 7 });
                    h.cfg.sps = Some(r.bytes(n1));
                    h.cfg.pps = Some(r.bytes(n2));
                    h.cfg.vps = if h.cfg.vcodec == H265 { Some(r.bytes(n3)) } else { None };
                    h.ops.push(FOp::Write { pts: 0, dts: 0, data: vec![1], sync: true });
                }
            }
            h.ops.push(FOp::Flush);
            return Case::Frag { h, side: Side { av1: side, vp9: None, op: 0 } };
        }
        _ => {
            // ordinary histories: the casts must all fit
            // (with rejected calls in between: what a rejected call leaves behind must not show up
            // in the declared durations either)
            let o = GenOpts { hostile_pct: 12, reorder_pct: 40, audio_pct: 70, encode_pct: 20, meta_pct: 40, ..Default::default() };
            return Case::Hist { h: gen_history(r, &o), side: Side::default() };
        }
    }
    ops.push(Op::Finish(FinishKind::InPlaceStats));
    Case::Hist { h: History { cfg, ops }, side: Side::default() }
}

fn hexify(r: &mut Rng, data: &[u8]) -> Vec<u8> {
    if r.chance(1, 5) {
        // a dump wrapped at a fixed column, odd widths included (digit pairs split across lines)
        let digits: String = data.iter().map(|b| format!("{:02x}", b)).collect();
        let w = *r.pick(&[1usize, 3, 5, 7, 15, 31, 2, 16, 64]);
        let mut out = String::new();
        for (i, c) in digits.chars().enumerate() {
            if i > 0 && i % w == 0 {
                out.push_str(if r.chance(1, 8) { "\r\n" } else { "\n" });
            }
            out.push(c);
        }
        out.push('\n');
        return out.into_bytes();
    }
    let mut s = String::new();
    let upper = r.chance(1, 4);
    let mixed = r.chance(1, 8);
    for (i, b) in data.iter().enumerate() {
        if mixed {
            // digits of one byte in different cases ("aB", "Ff")
            let hi = format!("{:x}", b >> 4);
            let lo = format!("{:x}", b & 15);
            s.push_str(&if r.chance(1, 2) { hi.to_uppercase() } else { hi });
            s.push_str(&if r.chance(1, 2) { lo.to_uppercase() } else { lo });
        } else if upper {
            s.push_str(&format!("{:02X}", b));
        } else {
            s.push_str(&format!("{:02x}", b));
        }
        match r.below(12) {
            0 => s.push(' '),
            1 => s.push('\n'),
            2 if i % 7 == 0 => s.push('\t'),
            3 if i % 11 == 0 => s.push_str("\r\n"),
            _ => {}
        }
    }
    if r.chance(1, 2) {
        s.push('\n');
    }
    s.into_bytes()
}

fn c20_case(r: &mut Rng) -> CliCase {
    let vnames = [("h264", H264), ("H264", H264), ("h.264", H264), ("avc", H264), ("h265", H265), ("hevc", H265), ("h.265", H265), ("av1", AV1), ("AV1", AV1), ("vp9", VP9)];
    let anames = [("aac", 1u8), ("aac-lc", 1), ("aac-main", 2), ("aac-ssr", 3), ("aac-ltp", 4), ("aac-he", 5), ("aac-hev2", 6), ("opus", 7), ("OPUS", 7)];
    let which = r.below(10);
    if which == 0 || which == 1 {
        // info on arbitrary / well-formed contents
        let mut c = CliCase { cmd: "info".into(), json: r.chance(1, 2), verbose: r.chance(1, 4), ..Default::default() };
        if r.chance(1, 8) {
            // a well-formed file of more than 1 MiB, in either layout, optionally followed by a
            // top-level 'free' box: boxes that START far into the file must be listed too
            let mut cfg = Cfg::basic(H264);
            cfg.fast_start = Some(r.chance(1, 2));
            let n = r.range(1_100_000, 2_600_000) as usize;
            let frame = video_frame(r, H264, FrameKind::KeyCfg, n, false);
            let h = History { cfg, ops: vec![Op::wv(0.0, frame, true), Op::Finish(FinishKind::InPlace)] };
            let (_ex, sink) = run(&h, &ExecOpts::default());
            let mut b = sink.bytes();
            if b.len() > (1 << 20) {
                if r.chance(1, 2) {
                    b.extend_from_slice(&[0, 0, 0, 16]);
                    b.extend_from_slice(b"free");
                    b.extend_from_slice(&[0u8; 8]);
                }
                c.info = Some(FileSpec { exists: true, content: b });
                c.intent = "valid".into();
                return c;
            }
        }
        if r.chance(1, 2) {
            let o = GenOpts { hostile_pct: 0, consuming: false, max_video: 4, max_audio: 4, ..Default::default() };
            let h = gen_history(r, &o);
            let (_ex, sink) = run(&h, &ExecOpts::default());
            let b = sink.bytes();
            if b.len() >= 8 {
                c.info = Some(FileSpec { exists: true, content: b });
                c.intent = "valid".into();
                return c;
            }
        }
        let content = match r.below(6) {
            0 => Vec::new(),
            1 => r.bytes_range(1, 64),
            2 => {
                // size fields 0..7 and huge sizes
                let mut v = Vec::new();
                for _ in 0..r.range(1, 6) {
                    let sz = *r.pick(&[0u32, 1, 2, 7, 8, 9, 16, u32::MAX, 1 << 31]);
                    v.extend_from_slice(&sz.to_be_bytes());
                    v.extend_from_slice(r.pick(&[b"ftyp", b"moov", b"mdat", b"\xff\xfe\x00\x01"]).as_slice());
                    let n = r.range(0, 12) as usize;
                    v.extend_from_slice(&r.bytes(n));
                }
                v
            }
            3 => {
                let o = GenOpts { hostile_pct: 0, consuming: false, max_video: 3, max_audio: 3, ..Default::default() };
                let h = gen_history(r, &o);
                let (_ex, sink) = run(&h, &ExecOpts::default());
                let b = sink.bytes();
                let cut = r.usize_below(b.len().max(1));
                b[..cut].to_vec()
            }
            4 if r.chance(1, 2) => vec![0u8; r.range(8, 200) as usize],
            4 => {
                // 64-bit 'largesize' headers (size field 1) with every kind of 64-bit value
                let mut v = Vec::new();
                if r.chance(1, 2) {
                    v.extend_from_slice(&[0, 0, 0, 16]);
                    v.extend_from_slice(b"ftyp");
                    v.extend_from_slice(b"isom\x00\x00\x02\x00");
                }
                for _ in 0..r.range(1, 3) {
                    v.extend_from_slice(&1u32.to_be_bytes());
                    v.extend_from_slice(r.pick(&[b"mdat", b"moov", b"free", b"\0\0\0\0"]).as_slice());
                    let ls = *r.pick(&[0u64, 1, 8, 15, 16, 17, 24, 1 << 32, u64::MAX, u64::MAX - 7]);
                    v.extend_from_slice(&ls.to_be_bytes());
                    let n = r.range(0, 24) as usize;
                    v.extend_from_slice(&r.bytes(n));
                }
                v
            }
            _ => {
                let mut v = vec![0, 0, 0, 8];
                v.extend_from_slice(b"free");
                v.extend(std::iter::repeat(1u8).take(r.range(0, 7) as usize));
                v
            }
        };
        c.info = Some(FileSpec { exists: r.chance(9, 10), content });
        c.intent = "arbitrary".into();
        return c;
    }
    if which == 2 || which == 3 {
        let mut c = CliCase { cmd: "validate".into(), json: r.chance(1, 2), verbose: r.chance(1, 4), report_file: r.chance(1, 4), ..Default::default() };
        let mk = |r: &mut Rng| -> FileSpec {
            match r.below(8) {
                0 => FileSpec { exists: false, content: vec![] },
                1 => FileSpec { exists: true, content: vec![] },
                2 => FileSpec { exists: true, content: b"  \n\t ".to_vec() },
                3 => FileSpec { exists: true, content: b"abc".to_vec() },
                4 => {
                    // valid hex text with exactly one character replaced by a non-hex character
                    let d = r.bytes_range(1, 24);
                    let mut t = hexify(r, &d);
                    let pos: Vec<usize> = (0..t.len()).filter(|&i| t[i].is_ascii_hexdigit()).collect();
                    if r.chance(1, 3) && !pos.is_empty() {
                        // a sign in the FIRST digit of a byte ("+f", "-1"): number parsers accept
                        // that, hexadecimal text does not contain it
                        let k = 2 * r.usize_below((pos.len() + 1) / 2);
                        t[pos[k.min(pos.len() - 1) & !1usize]] = *r.pick(&[b'+', b'+', b'-']);
                    } else if let Some(&i) = pos.get(r.usize_below(pos.len().max(1))) {
                        t[i] = *r.pick(&[b'+', b'-', b'g', b'x', b':', b'G', b'_', b'.', b'+']);
                    }
                    FileSpec { exists: true, content: t }
                }
                5 => FileSpec { exists: true, content: vec![0xff, 0xfe, 0x00, 0x80, 0x81] },
                _ => {
                    let d = r.bytes_range(1, 40);
                    FileSpec { exists: true, content: hexify(r, &d) }
                }
            }
        };
        if r.chance(4, 5) {
            c.video = Some(mk(r));
        }
        if r.chance(1, 2) {
            c.audio = Some(mk(r));
        }
        c.intent = "arbitrary".into();
        return c;
    }
    // mux
    let (vn, vc) = *r.pick(&vnames);
    let mut frame = video_frame(r, vc, FrameKind::KeyCfg, 12, false);
    if (vc == H264 || vc == H265) && r.chance(1, 5) {
        // parameter sets followed by a slice that is NOT an IDR picture (open-GOP recovery point,
        // BLA/CRA, or a plain slice): the tool declares its single frame a key frame, exactly as
        // the library call with is_keyframe = true does
        let mut f = Vec::new();
        let mut push = |hdr: &[u8], n: usize, r: &mut Rng| {
            f.extend_from_slice(&[0, 0, 0, 1]);
            f.extend_from_slice(hdr);
            f.extend(r.bytes(n).into_iter().map(|b| b | 4));
        };
        if vc == H264 {
            push(&[0x67], 8, r);
            push(&[0x68], 3, r);
            push(&[*r.pick(&[0x41u8, 0x21, 0x61, 0x01])], 10, r);
        } else {
            push(&[32 << 1, 1], 6, r);
            push(&[33 << 1, 1], 14, r);
            push(&[34 << 1, 1], 4, r);
            push(&[*r.pick(&[16u8, 17, 18, 21, 1, 0]) << 1, 1], 10, r);
        }
        frame = f;
    }
    let mut c = CliCase {
        cmd: "mux".into(),
        vcodec: if vc == H264 && r.chance(1, 3) { None } else { Some(vn.to_string()) },
        width: Some(*r.pick(&[320u32, 640, 1280, 1920, 4096])),
        height: Some(*r.pick(&[240u32, 480, 720, 1080, 2160])),
        fps: Some(r.pick(&["30", "29.97", "60", "120", "0.5", "24"]).to_string()),
        json: r.chance(1, 2),
        verbose: r.chance(1, 3),
        video: Some(FileSpec { exists: true, content: hexify(r, &frame) }),
        intent: "valid".into(),
        ..Default::default()
    };
    if r.chance(1, 2) {
        let (an, ak) = *r.pick(&anames);
        let a = AudioCfg { kind: ak, rate: *r.pick(&[48_000u32, 44_100, 8_000, 192_000]), channels: r.range(1, 8) as u16 };
        let af = audio_frame(r, &a, 10);
        c.acodec = if ak == 1 && r.chance(1, 3) { None } else { Some(an.to_string()) };
        c.sample_rate = Some(a.rate);
        c.channels = Some(a.channels as u8);
        c.audio = Some(FileSpec { exists: true, content: hexify(r, &af) });
    }
    else if r.chance(1, 6) {
        // audio SETTINGS without an --audio input: nothing to mux, the result is the library's
        // video-only file
        c.sample_rate = Some(*r.pick(&[48_000u32, 44_100]));
        c.channels = Some(r.range(1, 2) as u8);
        if r.chance(1, 2) {
            c.acodec = Some(r.pick(&["aac", "opus"]).to_string());
        }
    }
    if r.chance(1, 3) {
        c.title = Some(match r.below(3) {
            0 => r.pick(&["Test", "", "Ünï — ☃", "a b c", "x=1;y=2"]).to_string(),
            1 => {
                // long titles of multi-byte characters behind an ASCII prefix of every length
                // (whatever shortens, wraps or echoes a title must respect character boundaries)
                let unit = *r.pick(&["ä", "録", "😀", "é\u{0301}"]);
                format!("{}{}", "a".repeat(r.below(9) as usize), unit.repeat(r.range(8, 60) as usize))
            }
            // (no NUL bytes: they cannot travel in a command-line argument)
            _ => crate::gen::hist::titles(r).replace('\0', ""),
        });
    }
    if r.chance(1, 3) {
        c.language = Some(crate::gen::hist::langs(r));
    }
    if r.chance(1, 12) {
        c.out_kind = 1 + r.below(2) as u8;
        c.intent = "invalid:output-unwritable".into();
        return c;
    }
    // break it in one documented way
    if r.chance(2, 5) {
        let reason = match r.below(17) {
            0 => {
                c.video.as_mut().unwrap().exists = false;
                "missing-video-file"
            }
            1 => {
                c.video.as_mut().unwrap().content = b"zz11".to_vec();
                "invalid-hex"
            }
            2 => {
                c.video.as_mut().unwrap().content = Vec::new();
                "empty-file"
            }
            3 => {
                c.video.as_mut().unwrap().content = vec![0xff, 0xfe, 0x80, 0x00, 0x01];
                "binary-file"
            }
            4 => {
                c.video.as_mut().unwrap().content = b"abc".to_vec();
                "odd-length-hex"
            }
            5 => {
                c.width = Some(*r.pick(&[0u32, 1, 319, 4097, 100_000]));
                "width-out-of-range"
            }
            6 => {
                c.height = Some(*r.pick(&[0u32, 239, 2161, 70_000]));
                "height-out-of-range"
            }
            7 => {
                c.fps = Some(r.pick(&["0", "-1", "120.5", "nan", "inf", "1e9"]).to_string());
                "fps-out-of-range"
            }
            8 => {
                c.width = None;
                "missing-width"
            }
            9 => {
                c.video = None;
                "no-video-input"
            }
            10 if c.audio.is_some() => {
                c.sample_rate = Some(*r.pick(&[0u32, 192_001, u32::MAX]));
                "sample-rate-out-of-range"
            }
            11 if c.audio.is_some() => {
                c.channels = Some(*r.pick(&[0u8, 9, 255]));
                "channels-out-of-range"
            }
            12 if c.audio.is_some() => {
                c.audio.as_mut().unwrap().content = b"00 11 22 33 44 55 66 77".to_vec();
                "invalid-audio-frame"
            }
            13 if c.audio.is_some() => {
                c.audio.as_mut().unwrap().exists = false;
                "missing-audio-file"
            }
            15 => {
                // a '+' in place of a leading '0' nibble: still not hexadecimal text
                let t = c.video.as_ref().unwrap().content.clone();
                let mut t2 = t.clone();
                let mut digits = 0usize;
                let mut done = false;
                for i in 0..t2.len() {
                    if t2[i].is_ascii_hexdigit() {
                        if digits % 2 == 0 && t2[i] == b'0' && !done {
                            t2[i] = b'+';
                            done = true;
                        }
                        digits += 1;
                    }
                }
                if done {
                    c.video.as_mut().unwrap().content = t2;
                    "plus-sign-in-hex"
                } else {
                    c.video.as_mut().unwrap().content = b"zz11".to_vec();
                    "invalid-hex"
                }
            }
            14 => {
                let d = video_frame(r, vc, FrameKind::Delta, 8, false);
                c.video.as_mut().unwrap().content = hexify(r, &d);
                "first-frame-not-a-config-keyframe"
            }
            _ => {
                c.video.as_mut().unwrap().content = b"   \n ".to_vec();
                "whitespace-only"
            }
        };
        c.intent = format!("invalid:{}", reason);
    }
    c
}

pub fn eval_case2(prop: &str, case: &Case, obs: &mut Obs) -> Vec<Violation> {
    match (prop, case) {
        ("C12", Case::Hist { h, .. }) => {
            let (ex, _s) = run(h, &ExecOpts { render_errors: true, ..Default::default() });
            obs.nontrivial(h.hash());
            obs.sample(format!("{} => {:?}", h.brief(), ex.results.iter().take(8).map(|r| r.brief()).collect::<Vec<_>>()));
            obs.set("cells", h.cfg.cell());
            mon::c12::check_exec(h, &ex, obs)
        }
        ("C12", Case::Frag { h, .. }) => {
            let ex = run_frag(h, &ExecOpts::default());
            obs.nontrivial(h.hash());
            obs.sample(h.brief());
            mon::c12::check_fexec(h, &ex, obs)
        }
        ("C12", Case::Free(op)) => {
            let ps = mon::c12::run_free(op, obs);
            obs.nontrivial(case.hash());
            obs.sample(case.brief());
            ps.into_iter().map(|(name, m, l)| mon::c12::panic_violation(&name, &m, &l, &case.brief())).collect()
        }
        ("C12", Case::Adts { protection_absent, delta, lo, hi, mix }) => {
            let (h, _frames) = mon::c14::adts_history(*protection_absent, *delta, *lo, *hi, *mix);
            let (ex, _s) = run(&h, &ExecOpts { render_errors: true, ..Default::default() });
            obs.nontrivial(case.hash());
            obs.count("adts_length_sweeps", 1);
            mon::c12::check_exec(&h, &ex, obs)
        }
        ("C12", Case::FuzzInput { data }) => {
            obs.nontrivial(crate::util::fnv(data));
            crate::fuzzdec::eval(data, obs)
        }
        ("C13", Case::FaultAll { h, level }) => {
            obs.evaluations -= 1; // counted per fault run inside
            obs.sample(h.brief());
            obs.set("cells", h.cfg.cell());
            mon::c13::check_all(h, *level, obs).into_iter().map(|(v, f)| Violation { detail: format!("{} [fault: {}]", v.detail, serde_json::to_string(&f).unwrap_or_default()), ..v }).collect()
        }
        ("C13", Case::Fault { h, fault }) => match mon::c13::reference(h) {
            Some(r) => {
                obs.evaluations -= 1;
                mon::c13::check_one(h, fault, &r, obs)
            }
            None => vec![],
        },
        ("C14", Case::Enum { what, lo, hi }) => {
            obs.evaluations -= 1;
            let mut out: Vec<Violation> = Vec::new();
            let add = |vs: Vec<Violation>, out: &mut Vec<Violation>| {
                for v in vs {
                    if !out.iter().any(|x| x.sig == v.sig) {
                        out.push(v);
                    }
                }
            };
            match what.as_str() {
                "ab5" | "ab3" => {
                    let alpha: &[u8] = if what == "ab5" { &mon::c14::AB5 } else { &mon::c14::AB3 };
                    let mut all: Vec<Vec<u8>> = Vec::with_capacity((*hi - *lo) as usize);
                    for i in *lo..*hi {
                        let s = mon::c14::nth_string(alpha, i);
                        let vs = mon::c14::check_bytes(&s, obs);
                        if crate::model::basic::next_start_code(&s, 0).is_some() {
                            obs.nontrivial(crate::util::mix(crate::util::fnv(&s), s.len() as u64));
                        }
                        add(vs, &mut out);
                        all.push(s);
                    }
                    add(mon::c14::check_via_muxer(&all, obs), &mut out);
                    obs.count(&format!("enumerated:{}", what), hi - lo);
                    if *lo == 0 {
                        obs.sample(format!("all strings #{}..#{} over {:02x?} in shortlex order, e.g. {:02x?}", lo, hi, alpha, mon::c14::nth_string(alpha, hi - 1)));
                    }
                }
                _ => {
                    let mut r = Rng::new(crate::util::mix(0xC14, *lo));
                    let mut all: Vec<Vec<u8>> = Vec::new();
                    for _ in *lo..*hi {
                        let (s, vs) = mon::c14::constructive(&mut r, obs);
                        obs.nontrivial(crate::util::fnv(&s));
                        add(vs, &mut out);
                        // variants no encoder emits: a leading 4-byte size header equal to the rest
                        // of the buffer, and the same units already length-prefixed (no start code)
                        if r.chance(1, 4) && s.len() < (1 << 20) {
                            let mut t = (s.len() as u32).to_be_bytes().to_vec();
                            t.extend_from_slice(&s);
                            all.push(t);
                            all.push(crate::model::basic::to_length_prefixed(&s));
                        }
                        all.push(s);
                    }
                    for t in &all {
                        add(mon::c14::check_bytes(t, obs), &mut out);
                    }
                    add(mon::c14::check_via_muxer(&all, obs), &mut out);
                    for _ in 0..4 {
                        add(mon::c14::check_av_muxer(&mut r, obs), &mut out);
                    }
                }
            }
            out
        }
        ("C14", Case::Adts { protection_absent, delta, lo, hi, mix }) => {
            obs.evaluations -= 1;
            obs.count("enumerated:adts", (*hi - *lo) as u64);
            mon::c14::check_adts(*protection_absent, *delta, *lo, *hi, *mix, obs)
        }
        ("C16", Case::Hist { h, .. }) => {
            let (ex, sink) = run(h, &ExecOpts { casts: true, ..Default::default() });
            if ex.any_panic() {
                obs.inconclusive += 1;
                obs.count("histories_ending_in_panic(C12's business)", 1);
                return vec![];
            }
            let (bytes, events) = sink.with(|s| (s.bytes.clone(), s.events.clone()));
            let a = Analysis::new(h, &ex, &bytes, &events);
            obs.nontrivial(h.hash());
            obs.sample(format!("{} => {:?}", h.brief(), ex.results.iter().map(|r| r.brief()).collect::<Vec<_>>()));
            let mut out = mon::c16::check_file(&a, obs);
            // "holds the exact mathematical value implied by the input": the sample durations,
            // composition offsets and media durations are C03's oracle, box sizes C02's tiling
            let mut scratch = Obs::default();
            for v in mon::c03::check(&a, &mut scratch) {
                out.push(Violation::new("C16", format!("exact-value|{}", v.sig.trim_start_matches("C03|")), v.detail));
            }
            for v in mon::c02::check_file(&a, &mut scratch) {
                if v.sig.contains("tiling") {
                    out.push(Violation::new("C16", format!("box-size|{}", v.sig.trim_start_matches("C02|")), v.detail));
                }
            }
            let results = &ex.results;
            out.extend(mon::c16::check_casts(&ex.casts, &|i| results.get(i).map(|r| r.is_ok()).unwrap_or(false), &|i| h.ops.get(i).map(|o| o.brief()).unwrap_or_default(), obs));
            out
        }
        ("C16", Case::Frag { h, .. }) => {
            let ex = run_frag(h, &ExecOpts { casts: true, ..Default::default() });
            if ex.results.iter().any(|r| matches!(r, FRes::Panic { .. })) {
                obs.inconclusive += 1;
                obs.count("histories_ending_in_panic(C12's business)", 1);
                return vec![];
            }
            obs.nontrivial(h.hash());
            obs.sample(h.brief());
            let mut out = mon::c16::check_frag(h, &ex, obs);
            let results = &ex.results;
            out.extend(mon::c16::check_casts(
                &ex.casts,
                &|i| matches!(results.get(i), Some(FRes::Ok) | Some(FRes::Seg(Some(_))) | Some(FRes::Bytes(_))),
                &|i| h.ops.get(i).map(|o| o.brief()).unwrap_or_default(),
                obs,
            ));
            out
        }
        ("C17", Case::Threads { hs, threads, seed }) => {
            obs.nontrivial(case.hash());
            obs.sample(case.brief());
            mon::c17::check_threads(hs, *threads, *seed, obs)
        }
        ("C17", Case::Hist { h, .. }) => {
            obs.nontrivial(h.hash());
            obs.sample(h.brief());
            let mut out = mon::c17::check_sinks_and_moves(h, &format!("{}/tmp", crate::util::target_dir()), obs);
            out.extend(mon::c17::check_paths(h, obs));
            out.extend(mon::c17::check_frag_builder_paths(h.hash(), obs));
            let d = mon::c17::reference(h).digest();
            *obs.counters.entry("digest_xor".into()).or_insert(0) ^= d;
            out
        }
        ("C18", Case::Enum { what, lo, hi }) => {
            obs.evaluations -= 1;
            let mut out: Vec<Violation> = Vec::new();
            let add = |vs: Vec<Violation>, out: &mut Vec<Violation>| {
                for v in vs {
                    if !out.iter().any(|x| x.sig == v.sig) {
                        out.push(v);
                    }
                }
            };
            if what == "langs" {
                for i in *lo..*hi {
                    let code: String = [(i / 676) % 26, (i / 26) % 26, i % 26].iter().map(|&c| (b'a' + c as u8) as char).collect();
                    add(mon::c18::check_lang(&code, false, obs), &mut out);
                    add(mon::c18::check_lang(&code, true, obs), &mut out);
                    // a malformed neighbour of the code (one position replaced by an upper-case
                    // letter, digit, blank, '-', a multi-byte letter, or the code cut / extended):
                    // nothing is claimed about the stored value, but both muxers must get through
                    let mut chars: Vec<char> = code.chars().collect();
                    let pos = (i % 3) as usize;
                    let bad: String = match (i / 3) % 8 {
                        0 => { chars[pos] = chars[pos].to_ascii_uppercase(); chars.iter().collect() }
                        1 => { chars[pos] = '1'; chars.iter().collect() }
                        2 => { chars[pos] = ' '; chars.iter().collect() }
                        3 => { chars[pos] = '-'; chars.iter().collect() }
                        4 => { chars[pos] = 'é'; chars.iter().collect() }
                        5 => code[..pos].to_string(),
                        6 => format!("{}{}", code, &code[..pos + 1]),
                        _ => { chars[pos] = '\u{0}'; chars.iter().collect() }
                    };
                    add(mon::c18::check_malformed_lang(&bad, obs), &mut out);
                    obs.nontrivial(crate::util::fnv(code.as_bytes()));
                }
                obs.count("enumerated:langs", hi - lo);
                if *lo == 0 {
                    obs.sample("language codes aaa, aab, ... (progressive: every track's mdhd; fragmented: init segment mdhd)".to_string());
                }
            } else {
                let stride: u64 = what.split('/').nth(1).and_then(|s| s.parse().ok()).unwrap_or(1);
                let mut r = Rng::new(crate::util::mix(0xC18, *lo));
                for k in *lo..*hi {
                    let day = k * stride;
                    if day >= DAYS_TO_9999 {
                        break;
                    }
                    for sec in [0u64, 86_399, r.below(86_400)] {
                        let t = day * 86_400 + sec;
                        add(mon::c18::check_date(t, obs), &mut out);
                        obs.nontrivial(t);
                    }
                    // right afterwards, on the same thread, the same position of another 400-year
                    // Gregorian cycle (one muxer's date must not colour the next one's)
                    let shift = 146_097 * r.range(1, 19);
                    let other = if day + shift < DAYS_TO_9999 { Some(day + shift) } else if day >= shift { Some(day - shift) } else { None };
                    if let Some(d2) = other {
                        add(mon::c18::check_date(d2 * 86_400 + 43_200, obs), &mut out);
                    }
                    obs.count("enumerated:days", 1);
                }
                if *lo == 0 {
                    obs.sample(format!("every {}-th day from 1970-01-01 at 00:00:00, 23:59:59 and a random second; e.g. {} -> {}", stride, 951_782_400u64, crate::model::basic::iso8601(951_782_400)));
                }
            }
            out
        }
        ("C18", Case::Hist { h, .. }) => {
            let (ex, sink) = run(h, &ExecOpts::default());
            if ex.any_panic() {
                obs.inconclusive += 1;
                return vec![];
            }
            let bytes = sink.bytes();
            let a = Analysis::new(h, &ex, &bytes, &[]);
            let mut out = mon::c18::check_meta(&a, obs);
            let mut h0 = h.clone();
            h0.cfg.meta = false;
            h0.cfg.path &= !4;
            h0.cfg.title = None;
            h0.cfg.ctime = None;
            h0.cfg.lang = None;
            let (ex0, sink0) = run(&h0, &ExecOpts::default());
            let b0 = sink0.bytes();
            let a0 = Analysis::new(&h0, &ex0, &b0, &[]);
            out.extend(mon::c18::check_isolation(&a, &a0, obs));
            if a.finished_ok() {
                obs.nontrivial(h.hash());
                obs.sample(format!("{} title={:?} ctime={:?} lang={:?}", h.brief(), h.cfg.title.as_ref().map(|t| t.chars().take(20).collect::<String>()), h.cfg.ctime, h.cfg.lang));
            }
            obs.set("presence_combinations", format!("title={} ctime={} lang={}", h.cfg.title.is_some(), h.cfg.ctime.is_some(), h.cfg.lang.is_some()));
            out
        }
        ("C19", Case::Hist { h, .. }) => {
            let (ex, sink) = run(h, &ExecOpts::default());
            if ex.any_panic() || ex.first_ok_finish(h).is_none() {
                obs.inconclusive += ex.any_panic() as u64;
                return vec![];
            }
            let bytes = sink.bytes();
            let exp = mon::c19::Expect { width: h.cfg.width, height: h.cfg.height, movie_timescale: Some(1000), media_timescale: 90_000, n_tracks: 1 + h.cfg.audio_effective().is_some() as usize, codec: Some(h.cfg.vcodec) };
            obs.nontrivial(crate::util::fnv(format!("{} {}x{} {:?}", h.cfg.cell(), h.cfg.width, h.cfg.height, h.cfg.audio).as_bytes()));
            obs.sample(format!("{} {}x{} audio={:?}", h.cfg.cell(), h.cfg.width, h.cfg.height, h.cfg.audio));
            obs.set("cells", h.cfg.cell());
            mon::c19::check_stream(&bytes, "file", Some(&exp), obs)
        }
        ("C19", Case::Frag { h, .. }) => {
            let ex = run_frag(h, &ExecOpts::default());
            let mut out: Vec<Violation> = Vec::new();
            for r in &ex.results {
                let vs = match r {
                    FRes::Bytes(b) => {
                        let exp = mon::c19::Expect { width: h.cfg.width, height: h.cfg.height, movie_timescale: None, media_timescale: h.cfg.timescale, n_tracks: 1, codec: if h.cfg.via_builder { Some(h.cfg.vcodec) } else { None } };
                        obs.nontrivial(crate::util::fnv(b));
                        let mut vs = mon::c19::check_stream(b, "init", Some(&exp), obs);
                        // A language tag that is not three lower-case letters is outside the
                        // documented input format (ISO 639-2/T); what mdhd then holds is not
                        // specified (C18's don't-care zone), so its three 5-bit values are not
                        // judged. Everything else about the init segment still is.
                        let malformed = h.cfg.lang.as_ref().map(|l| l.len() != 3 || !l.bytes().all(|c| c.is_ascii_lowercase())).unwrap_or(false);
                        if malformed {
                            obs.count("init_segments_with_malformed_language_tag", 1);
                            vs.retain(|x| !x.sig.contains("mdhd: language character outside a-z"));
                        }
                        vs
                    }
                    FRes::Seg(Some(b)) => {
                        obs.nontrivial(crate::util::fnv(b));
                        mon::c19::check_stream(b, "segment", None, obs)
                    }
                    _ => vec![],
                };
                for v in vs {
                    if !out.iter().any(|x| x.sig == v.sig) {
                        out.push(v);
                    }
                }
            }
            obs.sample(h.brief());
            obs.set("init_codecs", format!("{}{}", mon::codec_name(h.cfg.vcodec), if h.cfg.via_builder { " via builder" } else { " via FragmentConfig" }));
            out
        }
        ("C20", Case::Cli(c)) => {
            obs.sample(c.brief());
            mon::c20::eval(c, obs)
        }
        _ => Vec::new(),
    }
}
