//! Strict, specification-derived decoders of fixed-layout boxes and decoder-configuration records
//! (ISO/IEC 14496-12, -14, -15; AV1-ISOBMFF; VP-codec-ISOBMFF; Opus-in-ISOBMFF).
//! Each decoder returns the recovered values plus a list of layout deviations. Deviation strings
//! are value-free (they name the rule that is broken), so they can serve as stable signatures.

use crate::util::{be16, be32, be64};

pub const UNITY: [u32; 9] = [0x0001_0000, 0, 0, 0, 0x0001_0000, 0, 0, 0, 0x4000_0000];

fn fullbox(p: &[u8]) -> Option<(u8, u32)> {
    if p.len() < 4 {
        None
    } else {
        Some((p[0], be32(p) & 0x00ff_ffff))
    }
}

fn all_zero(b: &[u8]) -> bool {
    b.iter().all(|&x| x == 0)
}

#[derive(Clone, Debug, Default, PartialEq)]
pub struct MvhdS {
    pub version: u8,
    pub timescale: u32,
    pub duration: u64,
    pub rate: u32,
    pub volume: u16,
    pub matrix: [u32; 9],
    pub next_track_id: u32,
}

pub fn mvhd(p: &[u8], dev: &mut Vec<String>) -> Option<MvhdS> {
    let (v, f) = fullbox(p)?;
    if f != 0 {
        dev.push("mvhd: flags not 0".into());
    }
    let want = match v {
        0 => 100,
        1 => 112,
        _ => {
            dev.push("mvhd: unknown version".into());
            return None;
        }
    };
    if p.len() != want {
        dev.push(format!("mvhd: payload size {} not {} for version {}", p.len(), want, v));
        if p.len() < want {
            return None;
        }
    }
    let (ts, dur, o) = if v == 0 { (be32(&p[12..]), be32(&p[16..]) as u64, 20) } else { (be32(&p[20..]), be64(&p[24..]), 32) };
    let rate = be32(&p[o..]);
    let volume = be16(&p[o + 4..]);
    if !all_zero(&p[o + 6..o + 16]) {
        dev.push("mvhd: reserved bytes not zero".into());
    }
    let mut m = [0u32; 9];
    for (i, x) in m.iter_mut().enumerate() {
        *x = be32(&p[o + 16 + i * 4..]);
    }
    if !all_zero(&p[o + 52..o + 76]) {
        dev.push("mvhd: pre_defined bytes not zero".into());
    }
    let next = be32(&p[o + 76..]);
    Some(MvhdS { version: v, timescale: ts, duration: dur, rate, volume, matrix: m, next_track_id: next })
}

#[derive(Clone, Debug, Default, PartialEq)]
pub struct TkhdS {
    pub version: u8,
    pub flags: u32,
    pub track_id: u32,
    pub duration: u64,
    pub layer: u16,
    pub alternate_group: u16,
    pub volume: u16,
    pub matrix: [u32; 9],
    pub width: u32,
    pub height: u32,
}

pub fn tkhd(p: &[u8], dev: &mut Vec<String>) -> Option<TkhdS> {
    let (v, f) = fullbox(p)?;
    let want = match v {
        0 => 84,
        1 => 96,
        _ => {
            dev.push("tkhd: unknown version".into());
            return None;
        }
    };
    if f & 1 == 0 {
        dev.push("tkhd: track_enabled flag not set".into());
    }
    if p.len() != want {
        // field positions cannot be trusted: report the size and stop
        dev.push(format!("tkhd: payload size {} not {} for version {}", p.len(), want, v));
        return None;
    }
    let (id, dur, o) = if v == 0 { (be32(&p[12..]), be32(&p[20..]) as u64, 24) } else { (be32(&p[20..]), be64(&p[28..]), 36) };
    let res1 = if v == 0 { &p[16..20] } else { &p[24..28] };
    if !all_zero(res1) {
        dev.push("tkhd: reserved word after track_ID not zero".into());
    }
    if !all_zero(&p[o..o + 8]) {
        dev.push("tkhd: reserved bytes not zero".into());
    }
    let layer = be16(&p[o + 8..]);
    let alt = be16(&p[o + 10..]);
    let volume = be16(&p[o + 12..]);
    if be16(&p[o + 14..]) != 0 {
        dev.push("tkhd: reserved half-word after volume not zero".into());
    }
    let mut m = [0u32; 9];
    for (i, x) in m.iter_mut().enumerate() {
        *x = be32(&p[o + 16 + i * 4..]);
    }
    let width = be32(&p[o + 52..]);
    let height = be32(&p[o + 56..]);
    Some(TkhdS { version: v, flags: f, track_id: id, duration: dur, layer, alternate_group: alt, volume, matrix: m, width, height })
}

#[derive(Clone, Debug, Default, PartialEq)]
pub struct MdhdS {
    pub version: u8,
    pub timescale: u32,
    pub duration: u64,
    pub lang: u16,
}

pub fn mdhd(p: &[u8], dev: &mut Vec<String>) -> Option<MdhdS> {
    let (v, f) = fullbox(p)?;
    if f != 0 {
        dev.push("mdhd: flags not 0".into());
    }
    let want = match v {
        0 => 24,
        1 => 36,
        _ => {
            dev.push("mdhd: unknown version".into());
            return None;
        }
    };
    if p.len() != want {
        dev.push(format!("mdhd: payload size {} not {} for version {}", p.len(), want, v));
        if p.len() < want {
            return None;
        }
    }
    let (ts, dur, o) = if v == 0 { (be32(&p[12..]), be32(&p[16..]) as u64, 20) } else { (be32(&p[20..]), be64(&p[24..]), 32) };
    let lang = be16(&p[o..]);
    if lang & 0x8000 != 0 {
        dev.push("mdhd: pad bit set".into());
    }
    for sh in [10, 5, 0] {
        let c = (lang >> sh) & 0x1f;
        if !(1..=26).contains(&c) {
            dev.push("mdhd: language character outside a-z".into());
            break;
        }
    }
    if be16(&p[o + 2..]) != 0 {
        dev.push("mdhd: pre_defined not zero".into());
    }
    Some(MdhdS { version: v, timescale: ts, duration: dur, lang })
}

#[derive(Clone, Debug, Default, PartialEq)]
pub struct HdlrS {
    pub handler: [u8; 4],
    pub name: Vec<u8>,
}

pub fn hdlr(p: &[u8], dev: &mut Vec<String>) -> Option<HdlrS> {
    let (v, f) = fullbox(p)?;
    if v != 0 || f != 0 {
        dev.push("hdlr: version/flags not 0".into());
    }
    if p.len() < 25 {
        dev.push("hdlr: too short".into());
        return None;
    }
    if be32(&p[4..]) != 0 {
        dev.push("hdlr: pre_defined not zero".into());
    }
    Some(HdlrS { handler: [p[8], p[9], p[10], p[11]], name: p[24..].to_vec() })
}

/// hdlr inside `moov/trak/mdia`: reserved words must be zero and the name null-terminated.
pub fn hdlr_media(p: &[u8], dev: &mut Vec<String>) -> Option<HdlrS> {
    let h = hdlr(p, dev)?;
    if !all_zero(&p[12..24]) {
        dev.push("hdlr: reserved words not zero".into());
    }
    if h.name.last() != Some(&0) {
        dev.push("hdlr: name not null-terminated".into());
    }
    Some(h)
}

pub fn vmhd(p: &[u8], dev: &mut Vec<String>) {
    match fullbox(p) {
        Some((v, f)) => {
            if v != 0 {
                dev.push("vmhd: version not 0".into());
            }
            if f != 1 {
                dev.push("vmhd: flags not 1".into());
            }
            if p.len() != 12 {
                dev.push("vmhd: payload size not 12".into());
            }
        }
        None => dev.push("vmhd: too short".into()),
    }
}

pub fn smhd(p: &[u8], dev: &mut Vec<String>) {
    match fullbox(p) {
        Some((v, f)) => {
            if v != 0 || f != 0 {
                dev.push("smhd: version/flags not 0".into());
            }
            if p.len() != 8 {
                dev.push("smhd: payload size not 8".into());
            } else if be16(&p[6..]) != 0 {
                dev.push("smhd: reserved not zero".into());
            }
        }
        None => dev.push("smhd: too short".into()),
    }
}

/// dref payload with a single self-contained url entry
pub fn dref(p: &[u8], dev: &mut Vec<String>) {
    if p.len() < 8 {
        dev.push("dref: too short".into());
        return;
    }
    if be32(p) != 0 {
        dev.push("dref: version/flags not 0".into());
    }
    let n = be32(&p[4..]);
    if n != 1 {
        dev.push("dref: entry_count not 1".into());
    }
    let e = &p[8..];
    if e.len() < 12 {
        dev.push("dref: entry truncated".into());
        return;
    }
    let sz = be32(e) as usize;
    let typ = &e[4..8];
    if typ == b"url " {
        let fl = be32(&e[8..]);
        if fl != 1 {
            dev.push("url : flags not 1 (self-contained)".into());
        }
        if sz != 12 {
            dev.push("url : self-contained entry carries a location".into());
        }
    } else if typ != b"urn " {
        dev.push("dref: entry is neither url nor urn".into());
    }
    if sz != e.len() {
        dev.push("dref: entries do not tile the box".into());
    }
}

pub fn ftyp(p: &[u8], dev: &mut Vec<String>) -> Option<([u8; 4], u32, Vec<[u8; 4]>)> {
    if p.len() < 8 || (p.len() - 8) % 4 != 0 {
        dev.push("ftyp: size not 8 + 4k".into());
        return None;
    }
    let major = [p[0], p[1], p[2], p[3]];
    let minor = be32(&p[4..]);
    let mut compat = Vec::new();
    for c in p[8..].chunks(4) {
        compat.push([c[0], c[1], c[2], c[3]]);
    }
    for b in std::iter::once(&major).chain(compat.iter()) {
        if !b.iter().all(|&x| (0x20..0x7f).contains(&x)) {
            dev.push("ftyp: brand not printable".into());
            break;
        }
    }
    Some((major, minor, compat))
}

#[derive(Clone, Debug, Default, PartialEq)]
pub struct VisualEntry {
    pub typ: [u8; 4],
    pub data_ref_index: u16,
    pub width: u16,
    pub height: u16,
    pub frame_count: u16,
    pub depth: u16,
    /// child boxes (type, payload)
    pub children: Vec<([u8; 4], Vec<u8>)>,
}

fn child_boxes(b: &[u8], what: &str, dev: &mut Vec<String>) -> Vec<([u8; 4], Vec<u8>)> {
    let mut out = Vec::new();
    let mut o = 0;
    while o < b.len() {
        if o + 8 > b.len() {
            dev.push(format!("{}: trailing bytes after child boxes", what));
            break;
        }
        let sz = be32(&b[o..]) as usize;
        if sz < 8 || o + sz > b.len() {
            dev.push(format!("{}: child box size does not tile", what));
            break;
        }
        out.push(([b[o + 4], b[o + 5], b[o + 6], b[o + 7]], b[o + 8..o + sz].to_vec()));
        o += sz;
    }
    out
}

/// `entry` = the complete sample-entry box.
pub fn visual_entry(entry: &[u8], dev: &mut Vec<String>) -> Option<VisualEntry> {
    if entry.len() < 8 + 78 {
        dev.push("visual sample entry: shorter than 86 bytes".into());
        return None;
    }
    let typ = [entry[4], entry[5], entry[6], entry[7]];
    let p = &entry[8..];
    if !all_zero(&p[0..6]) {
        dev.push("visual sample entry: reserved(6) not zero".into());
    }
    let dri = be16(&p[6..]);
    if dri != 1 {
        dev.push("visual sample entry: data_reference_index not 1".into());
    }
    if !all_zero(&p[8..24]) {
        dev.push("visual sample entry: pre_defined/reserved not zero".into());
    }
    let w = be16(&p[24..]);
    let h = be16(&p[26..]);
    if be32(&p[28..]) != 0x0048_0000 || be32(&p[32..]) != 0x0048_0000 {
        dev.push("visual sample entry: resolution not 72 dpi".into());
    }
    if be32(&p[36..]) != 0 {
        dev.push("visual sample entry: reserved not zero".into());
    }
    let fc = be16(&p[40..]);
    if fc != 1 {
        dev.push("visual sample entry: frame_count not 1".into());
    }
    let namelen = p[42] as usize;
    if namelen > 31 {
        dev.push("visual sample entry: compressorname length byte > 31".into());
    }
    let depth = be16(&p[74..]);
    if depth != 0x0018 {
        dev.push("visual sample entry: depth not 0x0018".into());
    }
    if be16(&p[76..]) != 0xffff {
        dev.push("visual sample entry: pre_defined not -1".into());
    }
    let children = child_boxes(&p[78..], "visual sample entry", dev);
    Some(VisualEntry { typ, data_ref_index: dri, width: w, height: h, frame_count: fc, depth, children })
}

#[derive(Clone, Debug, Default, PartialEq)]
pub struct AudioEntry {
    pub typ: [u8; 4],
    pub channels: u16,
    pub sample_size: u16,
    pub rate_fixed: u32,
    pub children: Vec<([u8; 4], Vec<u8>)>,
}

pub fn audio_entry(entry: &[u8], dev: &mut Vec<String>) -> Option<AudioEntry> {
    if entry.len() < 8 + 28 {
        dev.push("audio sample entry: shorter than 36 bytes".into());
        return None;
    }
    let typ = [entry[4], entry[5], entry[6], entry[7]];
    let p = &entry[8..];
    if !all_zero(&p[0..6]) {
        dev.push("audio sample entry: reserved(6) not zero".into());
    }
    if be16(&p[6..]) != 1 {
        dev.push("audio sample entry: data_reference_index not 1".into());
    }
    if !all_zero(&p[8..16]) {
        dev.push("audio sample entry: reserved words not zero".into());
    }
    let ch = be16(&p[16..]);
    let ss = be16(&p[18..]);
    if ss != 16 {
        dev.push("audio sample entry: samplesize not 16".into());
    }
    if be16(&p[20..]) != 0 || be16(&p[22..]) != 0 {
        dev.push("audio sample entry: pre_defined/reserved not zero".into());
    }
    let rate = be32(&p[24..]);
    let children = child_boxes(&p[28..], "audio sample entry", dev);
    Some(AudioEntry { typ, channels: ch, sample_size: ss, rate_fixed: rate, children })
}

#[derive(Clone, Debug, Default, PartialEq)]
pub struct AvcC {
    pub profile: u8,
    pub compat: u8,
    pub level: u8,
    pub length_size: u8,
    pub sps: Vec<Vec<u8>>,
    pub pps: Vec<Vec<u8>>,
}

pub fn avcc(p: &[u8], dev: &mut Vec<String>) -> Option<AvcC> {
    if p.len() < 7 {
        dev.push("avcC: too short".into());
        return None;
    }
    if p[0] != 1 {
        dev.push("avcC: configurationVersion not 1".into());
    }
    if p[4] & 0xfc != 0xfc {
        dev.push("avcC: reserved bits before lengthSizeMinusOne not all 1".into());
    }
    if p[5] & 0xe0 != 0xe0 {
        dev.push("avcC: reserved bits before numOfSequenceParameterSets not all 1".into());
    }
    let mut c = AvcC { profile: p[1], compat: p[2], level: p[3], length_size: (p[4] & 3) + 1, ..Default::default() };
    let nsps = (p[5] & 0x1f) as usize;
    let mut o = 6;
    for _ in 0..nsps {
        if o + 2 > p.len() {
            dev.push("avcC: truncated in SPS list".into());
            return Some(c);
        }
        let l = be16(&p[o..]) as usize;
        o += 2;
        if o + l > p.len() {
            dev.push("avcC: SPS length overruns the record".into());
            return Some(c);
        }
        c.sps.push(p[o..o + l].to_vec());
        o += l;
    }
    if o >= p.len() {
        dev.push("avcC: missing numOfPictureParameterSets".into());
        return Some(c);
    }
    let npps = p[o] as usize;
    o += 1;
    for _ in 0..npps {
        if o + 2 > p.len() {
            dev.push("avcC: truncated in PPS list".into());
            return Some(c);
        }
        let l = be16(&p[o..]) as usize;
        o += 2;
        if o + l > p.len() {
            dev.push("avcC: PPS length overruns the record".into());
            return Some(c);
        }
        c.pps.push(p[o..o + l].to_vec());
        o += l;
    }
    if o != p.len() {
        // high-profile extension is legal for profile_idc 100/110/122/144 (ISO/IEC 14496-15
        // 5.3.3.1.2): 6 reserved bits + chroma_format (2), 5 reserved bits + bit_depth_luma_minus8
        // (3), 5 reserved bits + bit_depth_chroma_minus8 (3), numOfSequenceParameterSetExt (8) and
        // that many 16-bit-length-prefixed SPS extension units, ending exactly at the record end
        let ext_ok = matches!(c.profile, 100 | 110 | 122 | 144) && p.len() - o >= 4;
        if !ext_ok {
            dev.push("avcC: trailing bytes after the PPS list".into());
        } else {
            let t = &p[o..];
            if t[0] & 0xfc != 0xfc || t[1] & 0xf8 != 0xf8 || t[2] & 0xf8 != 0xf8 {
                dev.push("avcC: reserved bits of the high-profile trailer not all 1".into());
            }
            let (cf, bl, bc) = (t[0] & 3, t[1] & 7, t[2] & 7);
            let mut q = o + 4;
            let mut tiles = true;
            for _ in 0..t[3] {
                if q + 2 > p.len() || q + 2 + be16(&p[q..]) as usize > p.len() {
                    tiles = false;
                    break;
                }
                q += 2 + be16(&p[q..]) as usize;
            }
            if !tiles || q != p.len() {
                dev.push("avcC: high-profile trailer / SPS extension list does not end at the record end".into());
            }
            // what the trailer says must be what the (first) SPS in the record says
            if let Some((scf, sbl, sbc)) = c.sps.first().and_then(|s| sps_chroma_and_depth(s)) {
                if (scf, sbl, sbc) != (cf as u64, bl as u64, bc as u64) {
                    dev.push("avcC: high-profile trailer (chroma_format / bit depths) disagrees with the SPS in the record".into());
                }
            }
        }
    }
    Some(c)
}

/// chroma_format_idc, bit_depth_luma_minus8, bit_depth_chroma_minus8 of an H.264 SPS NAL unit of
/// one of the profiles that code them (H.264 7.3.2.1.1), or None when the unit is another
/// profile's / too short / not decodable that far.
pub fn sps_chroma_and_depth(nal: &[u8]) -> Option<(u64, u64, u64)> {
    if nal.len() < 5 || nal[0] & 0x1f != 7 {
        return None;
    }
    // strip emulation-prevention bytes
    let mut rbsp = Vec::with_capacity(nal.len());
    let mut zeros = 0;
    for &b in &nal[1..] {
        if zeros >= 2 && b == 3 {
            zeros = 0;
            continue;
        }
        rbsp.push(b);
        zeros = if b == 0 { zeros + 1 } else { 0 };
    }
    if !matches!(rbsp[0], 100 | 110 | 122 | 244 | 44 | 83 | 86 | 118 | 128 | 138 | 139 | 134 | 135) {
        return None;
    }
    let mut r = crate::model::av1::BitRd::new(&rbsp[3..]);
    let mut ue = |r: &mut crate::model::av1::BitRd| -> Option<u64> {
        let mut lz = 0u32;
        while !r.b()? {
            lz += 1;
            if lz > 31 {
                return None;
            }
        }
        Some((1u64 << lz) - 1 + r.f(lz)?)
    };
    let _id = ue(&mut r)?;
    let cf = ue(&mut r)?;
    if cf == 3 {
        r.b()?;
    }
    let bl = ue(&mut r)?;
    let bc = ue(&mut r)?;
    Some((cf, bl, bc))
}

#[derive(Clone, Debug, Default, PartialEq)]
pub struct HvcC {
    pub profile_space: u8,
    pub tier: bool,
    pub profile_idc: u8,
    pub level_idc: u8,
    pub length_size: u8,
    /// (nal type, completeness, nal units)
    pub arrays: Vec<(u8, bool, Vec<Vec<u8>>)>,
}

pub fn hvcc(p: &[u8], dev: &mut Vec<String>) -> Option<HvcC> {
    if p.len() < 23 {
        dev.push("hvcC: shorter than the fixed 23-byte header".into());
        return None;
    }
    if p[0] != 1 {
        dev.push("hvcC: configurationVersion not 1".into());
    }
    if p[13] & 0xf0 != 0xf0 {
        dev.push("hvcC: reserved bits before min_spatial_segmentation_idc not all 1".into());
    }
    if p[15] & 0xfc != 0xfc {
        dev.push("hvcC: reserved bits before parallelismType not all 1".into());
    }
    if p[16] & 0xfc != 0xfc {
        dev.push("hvcC: reserved bits before chromaFormat not all 1".into());
    }
    if p[17] & 0xf8 != 0xf8 {
        dev.push("hvcC: reserved bits before bitDepthLumaMinus8 not all 1".into());
    }
    if p[18] & 0xf8 != 0xf8 {
        dev.push("hvcC: reserved bits before bitDepthChromaMinus8 not all 1".into());
    }
    let mut c = HvcC { profile_space: p[1] >> 6, tier: p[1] & 0x20 != 0, profile_idc: p[1] & 0x1f, level_idc: p[12], length_size: (p[21] & 3) + 1, arrays: Vec::new() };
    let n = p[22] as usize;
    let mut o = 23;
    for _ in 0..n {
        if o + 3 > p.len() {
            dev.push("hvcC: truncated in array header".into());
            return Some(c);
        }
        let b = p[o];
        if b & 0x40 != 0 {
            dev.push("hvcC: reserved bit in array header not 0".into());
        }
        let cnt = be16(&p[o + 1..]) as usize;
        o += 3;
        let mut nals = Vec::new();
        for _ in 0..cnt {
            if o + 2 > p.len() {
                dev.push("hvcC: truncated in NAL list".into());
                return Some(c);
            }
            let l = be16(&p[o..]) as usize;
            o += 2;
            if o + l > p.len() {
                dev.push("hvcC: NAL length overruns the record".into());
                return Some(c);
            }
            nals.push(p[o..o + l].to_vec());
            o += l;
        }
        c.arrays.push((b & 0x3f, b & 0x80 != 0, nals));
    }
    if o != p.len() {
        dev.push("hvcC: trailing bytes after the arrays".into());
    }
    Some(c)
}

#[derive(Clone, Debug, Default, PartialEq)]
pub struct Av1C {
    pub marker: bool,
    pub version: u8,
    pub seq_profile: u8,
    pub seq_level_idx_0: u8,
    pub seq_tier_0: u8,
    pub high_bitdepth: bool,
    pub twelve_bit: bool,
    pub monochrome: bool,
    pub sub_x: bool,
    pub sub_y: bool,
    pub csp: u8,
    pub config_obus: Vec<u8>,
}

pub fn av1c(p: &[u8], dev: &mut Vec<String>) -> Option<Av1C> {
    if p.len() < 4 {
        dev.push("av1C: shorter than the fixed 4-byte header".into());
        return None;
    }
    let c = Av1C {
        marker: p[0] & 0x80 != 0,
        version: p[0] & 0x7f,
        seq_profile: p[1] >> 5,
        seq_level_idx_0: p[1] & 0x1f,
        seq_tier_0: p[2] >> 7,
        high_bitdepth: p[2] & 0x40 != 0,
        twelve_bit: p[2] & 0x20 != 0,
        monochrome: p[2] & 0x10 != 0,
        sub_x: p[2] & 0x08 != 0,
        sub_y: p[2] & 0x04 != 0,
        csp: p[2] & 3,
        config_obus: p[4..].to_vec(),
    };
    if !c.marker {
        dev.push("av1C: marker bit not 1".into());
    }
    if c.version != 1 {
        dev.push("av1C: version not 1".into());
    }
    if p[3] & 0xe0 != 0 {
        dev.push("av1C: reserved bits not zero".into());
    }
    if p[3] & 0x10 == 0 && p[3] & 0x0f != 0 {
        dev.push("av1C: reserved delay bits not zero".into());
    }
    Some(c)
}

#[derive(Clone, Debug, Default, PartialEq)]
pub struct VpcC {
    /// "spec" (FullBox v1, 12-byte payload) or "flat8" (eight one-byte fields, no FullBox header)
    pub layout: &'static str,
    pub profile: u8,
    pub level: u8,
    pub bit_depth: u8,
    pub chroma_subsampling: u8,
    pub full_range: u8,
    pub colour_primaries: u8,
    pub transfer: u8,
    pub matrix: u8,
}

pub fn vpcc(p: &[u8], dev: &mut Vec<String>) -> Option<VpcC> {
    if p.len() >= 12 && p[0] == 1 && p[1] == 0 && p[2] == 0 && p[3] == 0 {
        let init = be16(&p[10..]) as usize;
        if init != 0 {
            dev.push("vpcC: codecInitializationDataSize not 0".into());
        }
        if p.len() != 12 + init {
            dev.push("vpcC: size does not match codecInitializationDataSize".into());
        }
        return Some(VpcC { layout: "spec", profile: p[4], level: p[5], bit_depth: p[6] >> 4, chroma_subsampling: (p[6] >> 1) & 7, full_range: p[6] & 1, colour_primaries: p[7], transfer: p[8], matrix: p[9] });
    }
    if p.len() == 8 && p[0] == 1 {
        dev.push("vpcC: not a FullBox(version 1) with packed bitDepth/chromaSubsampling/range byte and codecInitializationDataSize".into());
        return Some(VpcC { layout: "flat8", profile: p[1], level: p[2], bit_depth: p[3], chroma_subsampling: 0, full_range: p[7], colour_primaries: p[4], transfer: p[5], matrix: p[6] });
    }
    dev.push("vpcC: undecodable layout".into());
    None
}

#[derive(Clone, Debug, Default, PartialEq)]
pub struct Esds {
    pub es_id: u16,
    pub object_type: u8,
    pub stream_type_byte: u8,
    pub asc: Vec<u8>,
    pub aot: u8,
    pub sfi: u8,
    pub channel_cfg: u8,
}

fn descr_len(p: &[u8], o: &mut usize) -> Option<usize> {
    let mut v = 0usize;
    for _ in 0..4 {
        let b = *p.get(*o)?;
        *o += 1;
        v = (v << 7) | (b & 0x7f) as usize;
        if b & 0x80 == 0 {
            return Some(v);
        }
    }
    None
}

/// Bits an AudioSpecificConfig needs up to and including GASpecificConfig's three flag bits, for
/// the object types an MP4 AAC track can carry; None when even the fixed fields do not fit.
fn asc_bits_needed(asc: &[u8]) -> Option<usize> {
    let total = asc.len() * 8;
    let mut pos = 0usize;
    let mut get = |n: usize| -> Option<u32> {
        if pos + n > total {
            return None;
        }
        let mut v = 0u32;
        for i in 0..n {
            let b = (asc[(pos + i) / 8] >> (7 - (pos + i) % 8)) & 1;
            v = (v << 1) | b as u32;
        }
        pos += n;
        Some(v)
    };
    let aot_of = |get: &mut dyn FnMut(usize) -> Option<u32>| -> Option<u32> {
        let a = get(5)?;
        if a == 31 {
            Some(32 + get(6)?)
        } else {
            Some(a)
        }
    };
    let mut aot = aot_of(&mut get)?;
    if get(4)? == 15 {
        get(24)?;
    }
    get(4)?; // channelConfiguration
    let mut need_extra = 0usize;
    if aot == 5 || aot == 29 {
        // extensionSamplingFrequencyIndex [+ 24], then the underlying object type
        match get(4) {
            Some(15) => {
                if get(24).is_none() {
                    need_extra += 24;
                }
            }
            Some(_) => {}
            None => need_extra += 4,
        }
        match aot_of(&mut get) {
            Some(a) => aot = a,
            None => {
                need_extra += 5;
                aot = 2;
            }
        }
    }
    let ga = matches!(aot, 1 | 2 | 3 | 4 | 6 | 7 | 17 | 19 | 20 | 21 | 22 | 23);
    let _ = &mut get;
    Some(pos + need_extra + if ga { 3 } else { 0 })
}

pub fn esds(p: &[u8], dev: &mut Vec<String>) -> Option<Esds> {
    if p.len() < 4 {
        dev.push("esds: too short".into());
        return None;
    }
    if be32(p) != 0 {
        dev.push("esds: version/flags not 0".into());
    }
    let mut o = 4;
    if p.get(o) != Some(&0x03) {
        dev.push("esds: ES_Descriptor tag missing".into());
        return None;
    }
    o += 1;
    let es_len = descr_len(p, &mut o)?;
    if o + es_len != p.len() {
        dev.push("esds: ES_Descriptor length does not match the box".into());
    }
    if o + 3 > p.len() {
        dev.push("esds: truncated ES_Descriptor".into());
        return None;
    }
    let es_id = be16(&p[o..]);
    let fl = p[o + 2];
    o += 3;
    if fl & 0xe0 != 0 {
        dev.push("esds: streamDependence/URL/OCR flags set".into());
    }
    if p.get(o) != Some(&0x04) {
        dev.push("esds: DecoderConfigDescriptor tag missing".into());
        return None;
    }
    o += 1;
    let dc_len = descr_len(p, &mut o)?;
    let dc_end = o + dc_len;
    if dc_end > p.len() || dc_len < 13 {
        dev.push("esds: DecoderConfigDescriptor length invalid".into());
        return None;
    }
    let object_type = p[o];
    let st = p[o + 1];
    if object_type != 0x40 {
        dev.push("esds: objectTypeIndication not 0x40 (MPEG-4 audio)".into());
    }
    if st != 0x15 {
        dev.push("esds: streamType/upStream/reserved byte not 0x15".into());
    }
    o += 13;
    let mut e = Esds { es_id, object_type, stream_type_byte: st, ..Default::default() };
    if o < dc_end {
        if p[o] != 0x05 {
            dev.push("esds: DecoderSpecificInfo tag missing".into());
            return Some(e);
        }
        o += 1;
        let l = descr_len(p, &mut o)?;
        if o + l != dc_end {
            dev.push("esds: DecoderSpecificInfo length does not match DecoderConfigDescriptor".into());
        }
        if o + l > p.len() {
            return Some(e);
        }
        e.asc = p[o..o + l].to_vec();
        o += l;
        if e.asc.len() >= 2 {
            e.aot = e.asc[0] >> 3;
            e.sfi = ((e.asc[0] & 7) << 1) | (e.asc[1] >> 7);
            e.channel_cfg = (e.asc[1] >> 3) & 0x0f;
            // ISO/IEC 14496-3 1.6.2.1: is the record long enough for the syntax its own
            // audioObjectType selects? (explicit SBR/PS signalling needs the extension fields)
            if let Some(need) = asc_bits_needed(&e.asc) {
                if need > e.asc.len() * 8 {
                    dev.push("esds: AudioSpecificConfig shorter than the syntax of its audioObjectType requires".into());
                }
            } else {
                dev.push("esds: AudioSpecificConfig ends inside its fixed fields".into());
            }
        } else {
            dev.push("esds: AudioSpecificConfig shorter than 2 bytes".into());
        }
    } else {
        dev.push("esds: no DecoderSpecificInfo".into());
    }
    if p.get(o) != Some(&0x06) {
        dev.push("esds: SLConfigDescriptor tag missing".into());
        return Some(e);
    }
    o += 1;
    let l = descr_len(p, &mut o)?;
    if l != 1 || p.get(o) != Some(&0x02) {
        dev.push("esds: SLConfigDescriptor not predefined=2".into());
    }
    o += l;
    if o != p.len() {
        dev.push("esds: trailing bytes".into());
    }
    Some(e)
}

#[derive(Clone, Debug, Default, PartialEq)]
pub struct DOps {
    pub version: u8,
    pub channels: u8,
    pub pre_skip: u16,
    pub input_rate: u32,
    pub gain: i16,
    pub family: u8,
    pub stream_count: u8,
    pub coupled_count: u8,
    pub mapping: Vec<u8>,
}

pub fn dops(p: &[u8], dev: &mut Vec<String>) -> Option<DOps> {
    if p.len() < 11 {
        dev.push("dOps: shorter than 11 bytes".into());
        return None;
    }
    let mut d = DOps { version: p[0], channels: p[1], pre_skip: be16(&p[2..]), input_rate: be32(&p[4..]), gain: be16(&p[8..]) as i16, family: p[10], ..Default::default() };
    if d.version != 0 {
        dev.push("dOps: Version not 0".into());
    }
    if d.channels == 0 {
        dev.push("dOps: OutputChannelCount is 0".into());
    }
    if d.family == 0 {
        if p.len() != 11 {
            dev.push("dOps: family 0 but mapping table present".into());
        }
        if d.channels > 2 {
            dev.push("dOps: family 0 with more than 2 channels".into());
        }
    } else {
        let want = 11 + 2 + d.channels as usize;
        if p.len() != want {
            dev.push("dOps: size does not match 13 + OutputChannelCount".into());
        }
        if p.len() >= 13 {
            d.stream_count = p[11];
            d.coupled_count = p[12];
            d.mapping = p[13..].to_vec();
        }
    }
    Some(d)
}

pub fn trex(p: &[u8], dev: &mut Vec<String>) {
    if p.len() != 24 {
        dev.push("trex: payload size not 24".into());
    }
    if p.len() >= 4 && be32(p) != 0 {
        dev.push("trex: version/flags not 0".into());
    }
}

pub fn mfhd(p: &[u8], dev: &mut Vec<String>) {
    if p.len() != 8 {
        dev.push("mfhd: payload size not 8".into());
    }
    if p.len() >= 4 && be32(p) != 0 {
        dev.push("mfhd: version/flags not 0".into());
    }
}

/// 16.16 fixed-point dimension -> integer part (and whether the fraction is zero)
pub fn fixed16(v: u32) -> (u32, bool) {
    (v >> 16, v & 0xffff == 0)
}

#[cfg(test)]
mod tests {
    use super::*;

    fn be(v: u32) -> [u8; 4] {
        v.to_be_bytes()
    }

    #[test]
    fn tkhd_v0_and_v1_spec_layouts() {
        let mut p = Vec::new();
        p.extend_from_slice(&be(0x0000_0007)); // v0, enabled|in_movie|in_preview
        p.extend_from_slice(&[0; 8]); // creation, modification
        p.extend_from_slice(&be(5)); // track id
        p.extend_from_slice(&be(0)); // reserved
        p.extend_from_slice(&be(1234)); // duration
        p.extend_from_slice(&[0; 8]); // reserved
        p.extend_from_slice(&[0, 0, 0, 0, 1, 0, 0, 0]); // layer, alt group, volume 1.0, reserved
        for m in UNITY {
            p.extend_from_slice(&be(m));
        }
        p.extend_from_slice(&be(640 << 16));
        p.extend_from_slice(&be(480 << 16));
        assert_eq!(p.len(), 84);
        let mut dev = Vec::new();
        let t = tkhd(&p, &mut dev).unwrap();
        assert!(dev.is_empty(), "{:?}", dev);
        assert_eq!((t.track_id, t.duration, t.volume, t.width >> 16, t.height >> 16), (5, 1234, 0x0100, 640, 480));
        assert_eq!(t.matrix, UNITY);
        // 4 bytes too long (the muxide layout): rejected with a size deviation, no field is trusted
        let mut bad = p.clone();
        bad.splice(20..20, [0u8; 4]);
        let mut dev = Vec::new();
        assert!(tkhd(&bad, &mut dev).is_none());
        assert!(dev.iter().any(|d| d.contains("payload size 88 not 84")));
        // version 1
        let mut q = Vec::new();
        q.extend_from_slice(&be(0x0100_0001));
        q.extend_from_slice(&[0; 16]);
        q.extend_from_slice(&be(9));
        q.extend_from_slice(&be(0));
        q.extend_from_slice(&(1u64 << 40).to_be_bytes());
        q.extend_from_slice(&[0; 16]);
        for m in UNITY {
            q.extend_from_slice(&be(m));
        }
        q.extend_from_slice(&be(16 << 16));
        q.extend_from_slice(&be(16 << 16));
        assert_eq!(q.len(), 96);
        let mut dev = Vec::new();
        let t = tkhd(&q, &mut dev).unwrap();
        assert!(dev.is_empty(), "{:?}", dev);
        assert_eq!((t.track_id, t.duration), (9, 1 << 40));
    }

    #[test]
    fn mdhd_v1_and_language() {
        let mut p = Vec::new();
        p.extend_from_slice(&be(0x0100_0000));
        p.extend_from_slice(&[0; 16]);
        p.extend_from_slice(&be(90_000));
        p.extend_from_slice(&(5_000_000_000u64).to_be_bytes());
        // "fra" = (6,18,1)
        let lang: u16 = (6 << 10) | (18 << 5) | 1;
        p.extend_from_slice(&lang.to_be_bytes());
        p.extend_from_slice(&[0, 0]);
        assert_eq!(p.len(), 36);
        let mut dev = Vec::new();
        let m = mdhd(&p, &mut dev).unwrap();
        assert!(dev.is_empty(), "{:?}", dev);
        assert_eq!((m.version, m.timescale, m.duration), (1, 90_000, 5_000_000_000));
        // 32-bit times under version 1 (a known wrong layout) is a deviation
        let mut dev = Vec::new();
        assert!(mdhd(&p[..28], &mut dev).is_none());
        assert!(!dev.is_empty());
    }

    #[test]
    fn esds_with_long_form_lengths() {
        // descriptors with 4-byte (0x80-prefixed) expandable lengths, as many muxers write them
        let asc = [0x12u8, 0x10]; // AOT 2, sfi 4, channels 2
        let mut dsi = vec![0x05, 0x80, 0x80, 0x80, 2];
        dsi.extend_from_slice(&asc);
        let mut dcd = vec![0x04, 0x80, 0x80, 0x80, (13 + dsi.len()) as u8, 0x40, 0x15, 0, 0, 0, 0, 0, 0, 0, 0, 0, 0, 0];
        dcd.extend_from_slice(&dsi);
        let sl = [0x06u8, 0x80, 0x80, 0x80, 1, 2];
        let mut es = vec![0x03, 0x80, 0x80, 0x80, (3 + dcd.len() + sl.len()) as u8, 0, 1, 0];
        es.extend_from_slice(&dcd);
        es.extend_from_slice(&sl);
        let mut p = vec![0, 0, 0, 0];
        p.extend_from_slice(&es);
        let mut dev = Vec::new();
        let e = esds(&p, &mut dev).unwrap();
        assert!(dev.is_empty(), "{:?}", dev);
        assert_eq!((e.aot, e.sfi, e.channel_cfg), (2, 4, 2));
    }

    #[test]
    fn vpcc_av1c_hvcc_layouts() {
        let mut dev = Vec::new();
        let v = vpcc(&[1, 0, 0, 0, 2, 31, 0xa3, 9, 16, 9, 0, 0], &mut dev).unwrap();
        assert!(dev.is_empty());
        assert_eq!((v.layout, v.profile, v.level, v.bit_depth, v.chroma_subsampling, v.full_range), ("spec", 2, 31, 10, 1, 1));
        let mut dev = Vec::new();
        assert_eq!(vpcc(&[1, 0, 0, 8, 0, 0, 0, 0], &mut dev).unwrap().layout, "flat8");
        assert!(!dev.is_empty());
        let mut dev = Vec::new();
        let a = av1c(&[0x81, (2 << 5) | 13, 0x80 | 0x40 | 0x08, 0x00, 0x0a, 0x01, 0x00], &mut dev).unwrap();
        assert!(dev.is_empty());
        assert_eq!((a.seq_profile, a.seq_level_idx_0, a.seq_tier_0, a.high_bitdepth, a.sub_x, a.sub_y), (2, 13, 1, true, true, false));
        assert_eq!(a.config_obus, vec![0x0a, 0x01, 0x00]);
        let mut dev = Vec::new();
        av1c(&[0x01, 0, 0], &mut dev);
        assert!(!dev.is_empty());
        // hvcC with all reserved bits set and two arrays
        let mut h = vec![1, 0x21, 0x60, 0, 0, 0, 0x90, 0, 0, 0, 0, 0, 93, 0xf0, 0, 0xfc, 0xfd, 0xf8, 0xf8, 0, 0, 0x0f, 2];
        h.extend_from_slice(&[0x80 | 33, 0, 1, 0, 3, 0x42, 1, 1]);
        h.extend_from_slice(&[0x80 | 34, 0, 1, 0, 2, 0x44, 1]);
        let mut dev = Vec::new();
        let c = hvcc(&h, &mut dev).unwrap();
        assert!(dev.is_empty(), "{:?}", dev);
        assert_eq!((c.profile_idc, c.tier, c.level_idc, c.length_size, c.arrays.len()), (1, true, 93, 4, 2));
        let mut zero = h.clone();
        zero[15] = 0;
        let mut dev = Vec::new();
        hvcc(&zero, &mut dev);
        assert!(dev.iter().any(|d| d.contains("parallelismType")));
    }
}
