//! Recording and fault-injecting sinks. Events are stamped with the sequence number of the
//! enclosing API call (set by the executor *before* it invokes the call).

use serde::{Deserialize, Serialize};
use std::io::{self, ErrorKind, Write};
use std::sync::{Arc, Mutex};

pub const KINDS: &[ErrorKind] = &[
    ErrorKind::Other,
    ErrorKind::BrokenPipe,
    ErrorKind::PermissionDenied,
    ErrorKind::WriteZero,
    ErrorKind::UnexpectedEof,
    ErrorKind::TimedOut,
    ErrorKind::WouldBlock,
    ErrorKind::InvalidInput,
    ErrorKind::InvalidData,
    ErrorKind::NotFound,
    ErrorKind::ConnectionReset,
    ErrorKind::ConnectionAborted,
    ErrorKind::NotConnected,
    ErrorKind::AddrInUse,
    ErrorKind::AlreadyExists,
    ErrorKind::OutOfMemory,
    ErrorKind::Unsupported,
    ErrorKind::StorageFull,
];

#[derive(Serialize, Deserialize, Clone, Debug, PartialEq)]
pub enum Fault {
    None,
    /// the k-th write call (0-based) fails with KINDS[kind]
    FailWrite { k: usize, kind: usize },
    /// accept exactly n bytes in total (shortening the crossing write), then fail
    AcceptThenFail { n: u64, kind: usize },
    /// accept exactly n bytes (shortening the crossing write), fail ONE call, then work again
    AcceptThenFailOnce { n: u64, kind: usize },
    /// the k-th write call returns Ok(0)
    ZeroAt { k: usize },
    /// random short writes and Interrupted bursts, never fatal
    Schedule { seed: u64, max_chunk: usize, interrupt_pct: u8 },
    /// accept one byte per call
    OneByte,
}

#[derive(Clone, Debug, PartialEq)]
pub struct SinkEv {
    pub seq: u32,
    pub offered: usize,
    /// Ok(n) or Err(kind index into KINDS; usize::MAX = Interrupted)
    pub res: Result<usize, usize>,
    /// bytes accepted before this event
    pub at: u64,
}

#[derive(Debug)]
pub struct SinkState {
    pub bytes: Vec<u8>,
    pub events: Vec<SinkEv>,
    pub flushes: Vec<u32>,
    pub seq: u32,
    pub fault: Fault,
    pub write_calls: usize,
    /// a fatal (non-Interrupted) error or Ok(0) has been delivered
    pub fatal_delivered: bool,
    pub rng: crate::util::Rng,
    pub interrupted_run: u32,
    pub record_events: bool,
    pub vectored_calls: u64,
    pub once_fired: bool,
}

#[derive(Clone)]
pub struct RecSink(pub Arc<Mutex<SinkState>>);

impl RecSink {
    pub fn new(fault: Fault) -> Self {
        let seed = match &fault {
            Fault::Schedule { seed, .. } => *seed,
            _ => 0,
        };
        RecSink(Arc::new(Mutex::new(SinkState {
            bytes: Vec::new(),
            events: Vec::new(),
            flushes: Vec::new(),
            seq: 0,
            fault,
            write_calls: 0,
            fatal_delivered: false,
            rng: crate::util::Rng::new(seed),
            interrupted_run: 0,
            record_events: true,
            vectored_calls: 0,
            once_fired: false,
        })))
    }
    pub fn set_seq(&self, seq: u32) {
        self.0.lock().unwrap().seq = seq;
    }
    pub fn bytes(&self) -> Vec<u8> {
        self.0.lock().unwrap().bytes.clone()
    }
    pub fn with<R>(&self, f: impl FnOnce(&SinkState) -> R) -> R {
        f(&self.0.lock().unwrap())
    }
}

impl Write for RecSink {
    fn write(&mut self, buf: &[u8]) -> io::Result<usize> {
        let mut st = self.0.lock().unwrap();
        let k = st.write_calls;
        st.write_calls += 1;
        let at = st.bytes.len() as u64;
        let offered = buf.len();
        let res: Result<usize, usize> = match st.fault.clone() {
            Fault::None => Ok(offered),
            Fault::FailWrite { k: fk, kind } => {
                if k == fk {
                    Err(kind)
                } else {
                    Ok(offered)
                }
            }
            Fault::AcceptThenFail { n, kind } => {
                if at >= n {
                    Err(kind)
                } else {
                    Ok(offered.min((n - at) as usize))
                }
            }
            Fault::AcceptThenFailOnce { n, kind } => {
                if st.once_fired || at < n {
                    if st.once_fired { Ok(offered) } else { Ok(offered.min((n - at) as usize)) }
                } else {
                    st.once_fired = true;
                    Err(kind)
                }
            }
            Fault::ZeroAt { k: fk } => {
                if k == fk {
                    Ok(0)
                } else {
                    Ok(offered)
                }
            }
            Fault::Schedule { max_chunk, interrupt_pct, .. } => {
                if st.interrupted_run < 3 && st.rng.below(100) < interrupt_pct as u64 {
                    st.interrupted_run += 1;
                    Err(usize::MAX)
                } else {
                    st.interrupted_run = 0;
                    if offered == 0 {
                        Ok(0)
                    } else {
                        let m = max_chunk.max(1).min(offered);
                        Ok(1 + st.rng.usize_below(m))
                    }
                }
            }
            Fault::OneByte => Ok(offered.min(1)),
        };
        if st.record_events {
            let seq = st.seq;
            st.events.push(SinkEv { seq, offered, res, at });
        }
        match res {
            Ok(n) => {
                if n == 0 && offered > 0 {
                    st.fatal_delivered = true;
                }
                st.bytes.extend_from_slice(&buf[..n]);
                Ok(n)
            }
            Err(usize::MAX) => Err(io::Error::new(ErrorKind::Interrupted, "injected interrupt")),
            Err(kind) => {
                st.fatal_delivered = true;
                // the error's text is the sink's business too: short, very long, and long multi-byte
                // text whose character boundaries fall on every residue (anything that shortens or
                // re-wraps the message must cope)
                let msg = match (kind + k) % 4 {
                    0 => "injected fault".to_string(),
                    1 => format!("{}{}", "a".repeat(k % 5), "容量不足".repeat(100)),
                    2 => "x".repeat(5000),
                    _ => format!("{}{}", "é".repeat(120 + k % 9), "😀".repeat(40)),
                };
                Err(io::Error::new(KINDS[kind % KINDS.len()], msg))
            }
        }
    }
    /// A real gathering sink: the slices are taken as one contiguous offer, the fault schedule
    /// decides how much of it is accepted, and the accepted count may end inside any slice.
    fn write_vectored(&mut self, bufs: &[io::IoSlice<'_>]) -> io::Result<usize> {
        let joined: Vec<u8> = bufs.iter().flat_map(|b| b.iter().copied()).collect();
        self.0.lock().unwrap().vectored_calls += 1;
        self.write(&joined)
    }
    fn flush(&mut self) -> io::Result<()> {
        let mut st = self.0.lock().unwrap();
        let seq = st.seq;
        st.flushes.push(seq);
        Ok(())
    }
}

/// Plain sink that accepts one byte per call (for the sink-type comparison in C17).
pub struct OneByteVec(pub Vec<u8>);
impl Write for OneByteVec {
    fn write(&mut self, buf: &[u8]) -> io::Result<usize> {
        if buf.is_empty() {
            return Ok(0);
        }
        self.0.push(buf[0]);
        Ok(1)
    }
    fn flush(&mut self) -> io::Result<()> {
        Ok(())
    }
}
