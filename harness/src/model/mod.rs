pub mod av1;
pub mod basic;
pub mod vp9;
