//! AV1 sequence-header *writer* driven by a field struct (AV1 bitstream spec 5.5), plus OBU framing.
//! The oracle generates the header from known field values instead of re-parsing it.

use crate::util::Rng;
use serde::{Deserialize, Serialize};

pub struct BitWriter {
    pub bytes: Vec<u8>,
    nbits: usize,
}

impl BitWriter {
    pub fn new() -> Self {
        BitWriter { bytes: Vec::new(), nbits: 0 }
    }
    pub fn bit(&mut self, b: bool) {
        if self.nbits % 8 == 0 {
            self.bytes.push(0);
        }
        if b {
            let i = self.bytes.len() - 1;
            self.bytes[i] |= 1 << (7 - (self.nbits % 8));
        }
        self.nbits += 1;
    }
    pub fn bits(&mut self, v: u64, n: u32) {
        for i in (0..n).rev() {
            self.bit((v >> i) & 1 == 1);
        }
    }
    /// uvlc(): leadingZeros zeros, a one, then leadingZeros bits of (value + 1 - 2^lz)
    pub fn uvlc(&mut self, value: u32) {
        let v = value as u64 + 1;
        let mut lz = 63 - v.leading_zeros(); // floor(log2(v))
        if value == u32::MAX {
            // the reserved value (only ever written by `reserved_uvlc_seq_unit`): 32 or more
            // leading zeros, a one, and as many suffix bits
            lz += UVLC_EXTRA.with(|c| c.get());
            for _ in 0..lz {
                self.bit(false);
            }
            self.bit(true);
            for _ in 0..lz {
                self.bit(false);
            }
            return;
        }
        for _ in 0..lz {
            self.bit(false);
        }
        self.bit(true);
        if lz > 0 {
            self.bits(v - (1u64 << lz), lz);
        }
    }
    pub fn trailing_bits(&mut self) {
        self.bit(true);
        while self.nbits % 8 != 0 {
            self.bit(false);
        }
    }
    pub fn len_bits(&self) -> usize {
        self.nbits
    }
}

impl Default for BitWriter {
    fn default() -> Self {
        Self::new()
    }
}

#[derive(Serialize, Deserialize, Clone, Debug, PartialEq)]
pub struct Timing {
    pub num_units_in_display_tick: u32,
    pub time_scale: u32,
    /// Some(num_ticks_per_picture_minus_1) when equal_picture_interval = 1
    pub equal_picture_interval: Option<u32>,
}

#[derive(Serialize, Deserialize, Clone, Debug, PartialEq)]
pub struct DecoderModel {
    pub buffer_delay_length_minus_1: u8,
    pub num_units_in_decoding_tick: u32,
    pub buffer_removal_time_length_minus_1: u8,
    pub frame_presentation_time_length_minus_1: u8,
}

#[derive(Serialize, Deserialize, Clone, Debug, PartialEq)]
pub struct OpPoint {
    pub idc: u16,
    pub level: u8,
    pub tier: bool,
    /// (decoder_buffer_delay, encoder_buffer_delay, low_delay_mode_flag) when present for this op
    pub dec_model: Option<(u64, u64, bool)>,
    /// initial_display_delay_minus_1 when present for this op
    pub display_delay: Option<u8>,
}

#[derive(Serialize, Deserialize, Clone, Debug, PartialEq)]
pub struct Color {
    pub high_bitdepth: bool,
    pub twelve_bit: bool,
    pub mono: bool,
    pub desc: Option<(u8, u8, u8)>,
    pub color_range: bool,
    pub sub_x: bool,
    pub sub_y: bool,
    pub csp: u8,
    pub separate_uv_delta_q: bool,
}

#[derive(Serialize, Deserialize, Clone, Debug, PartialEq)]
pub struct SeqHdr {
    pub profile: u8,
    pub still_picture: bool,
    pub reduced: bool,
    pub level0: u8,
    pub timing: Option<Timing>,
    pub decoder_model: Option<DecoderModel>,
    pub initial_display_delay_present: bool,
    pub ops: Vec<OpPoint>,
    pub width_bits_m1: u8,
    pub height_bits_m1: u8,
    pub max_w_m1: u32,
    pub max_h_m1: u32,
    pub frame_id: Option<(u8, u8)>,
    pub sb128: bool,
    pub filter_intra: bool,
    pub intra_edge: bool,
    pub interintra: bool,
    pub masked: bool,
    pub warped: bool,
    pub dual_filter: bool,
    pub order_hint: Option<(bool, bool, u8)>,
    pub choose_screen_content: bool,
    pub force_screen_content: bool,
    pub choose_integer_mv: bool,
    pub force_integer_mv: bool,
    pub superres: bool,
    pub cdef: bool,
    pub restoration: bool,
    pub color: Color,
    pub film_grain: bool,
}

/// What a conformant reader derives from the header (the av1C fields).
#[derive(Clone, Debug, PartialEq, Eq)]
pub struct Av1Expect {
    pub seq_profile: u8,
    pub seq_level_idx_0: u8,
    pub seq_tier_0: u8,
    pub high_bitdepth: bool,
    pub twelve_bit: bool,
    pub monochrome: bool,
    pub sub_x: bool,
    pub sub_y: bool,
    pub csp: u8,
}

impl SeqHdr {
    /// sequence_header_obu() payload including trailing bits.
    pub fn write(&self) -> Vec<u8> {
        let mut w = BitWriter::new();
        w.bits(self.profile as u64, 3);
        w.bit(self.still_picture);
        w.bit(self.reduced);
        if self.reduced {
            w.bits(self.level0 as u64, 5);
        } else {
            w.bit(self.timing.is_some());
            if let Some(t) = &self.timing {
                w.bits(t.num_units_in_display_tick as u64, 32);
                w.bits(t.time_scale as u64, 32);
                w.bit(t.equal_picture_interval.is_some());
                if let Some(n) = t.equal_picture_interval {
                    w.uvlc(n);
                }
                w.bit(self.decoder_model.is_some());
                if let Some(d) = &self.decoder_model {
                    w.bits(d.buffer_delay_length_minus_1 as u64, 5);
                    w.bits(d.num_units_in_decoding_tick as u64, 32);
                    w.bits(d.buffer_removal_time_length_minus_1 as u64, 5);
                    w.bits(d.frame_presentation_time_length_minus_1 as u64, 5);
                }
            }
            w.bit(self.initial_display_delay_present);
            w.bits((self.ops.len() - 1) as u64, 5);
            for op in &self.ops {
                w.bits(op.idc as u64, 12);
                w.bits(op.level as u64, 5);
                if op.level > 7 {
                    w.bit(op.tier);
                }
                if let Some(d) = self.decoder_model.as_ref().filter(|_| self.timing.is_some()) {
                    w.bit(op.dec_model.is_some());
                    if let Some((a, b, l)) = op.dec_model {
                        let n = d.buffer_delay_length_minus_1 as u32 + 1;
                        w.bits(a, n);
                        w.bits(b, n);
                        w.bit(l);
                    }
                }
                if self.initial_display_delay_present {
                    w.bit(op.display_delay.is_some());
                    if let Some(d) = op.display_delay {
                        w.bits(d as u64, 4);
                    }
                }
            }
        }
        w.bits(self.width_bits_m1 as u64, 4);
        w.bits(self.height_bits_m1 as u64, 4);
        w.bits(self.max_w_m1 as u64, self.width_bits_m1 as u32 + 1);
        w.bits(self.max_h_m1 as u64, self.height_bits_m1 as u32 + 1);
        if !self.reduced {
            w.bit(self.frame_id.is_some());
            if let Some((a, b)) = self.frame_id {
                w.bits(a as u64, 4);
                w.bits(b as u64, 3);
            }
        }
        w.bit(self.sb128);
        w.bit(self.filter_intra);
        w.bit(self.intra_edge);
        if !self.reduced {
            w.bit(self.interintra);
            w.bit(self.masked);
            w.bit(self.warped);
            w.bit(self.dual_filter);
            w.bit(self.order_hint.is_some());
            if let Some((j, r, _)) = self.order_hint {
                w.bit(j);
                w.bit(r);
            }
            w.bit(self.choose_screen_content);
            let force_sct = if self.choose_screen_content {
                2
            } else {
                w.bit(self.force_screen_content);
                self.force_screen_content as u8
            };
            if force_sct > 0 {
                w.bit(self.choose_integer_mv);
                if !self.choose_integer_mv {
                    w.bit(self.force_integer_mv);
                }
            }
            if let Some((_, _, b)) = self.order_hint {
                w.bits(b as u64, 3);
            }
        }
        w.bit(self.superres);
        w.bit(self.cdef);
        w.bit(self.restoration);
        // color_config()
        let c = &self.color;
        w.bit(c.high_bitdepth);
        if self.profile == 2 && c.high_bitdepth {
            w.bit(c.twelve_bit);
        }
        if self.profile != 1 {
            w.bit(c.mono);
        }
        w.bit(c.desc.is_some());
        if let Some((cp, tc, mc)) = c.desc {
            w.bits(cp as u64, 8);
            w.bits(tc as u64, 8);
            w.bits(mc as u64, 8);
        }
        let mono = self.profile != 1 && c.mono;
        if mono {
            w.bit(c.color_range);
        } else if c.desc == Some((1, 13, 0)) {
            // sRGB: nothing signalled
            w.bit(c.separate_uv_delta_q);
        } else {
            w.bit(c.color_range);
            let bit12 = self.profile == 2 && c.high_bitdepth && c.twelve_bit;
            let (sx, sy) = if self.profile == 0 {
                (true, true)
            } else if self.profile == 1 {
                (false, false)
            } else if bit12 {
                w.bit(c.sub_x);
                if c.sub_x {
                    w.bit(c.sub_y);
                }
                (c.sub_x, c.sub_x && c.sub_y)
            } else {
                (true, false)
            };
            if sx && sy {
                w.bits(c.csp as u64, 2);
            }
            w.bit(c.separate_uv_delta_q);
        }
        w.bit(self.film_grain);
        w.trailing_bits();
        w.bytes
    }

    /// The av1C fields implied by the header, derived per the specification.
    pub fn expect(&self) -> Av1Expect {
        let c = &self.color;
        let (level, tier) = if self.reduced {
            (self.level0, 0)
        } else {
            let o = &self.ops[0];
            (o.level, if o.level > 7 { o.tier as u8 } else { 0 })
        };
        let twelve = self.profile == 2 && c.high_bitdepth && c.twelve_bit;
        let mono = self.profile != 1 && c.mono;
        let (sx, sy, csp) = if mono {
            (true, true, 0)
        } else if c.desc == Some((1, 13, 0)) {
            (false, false, 0)
        } else if self.profile == 0 {
            (true, true, c.csp)
        } else if self.profile == 1 {
            (false, false, 0)
        } else if twelve {
            let sy = c.sub_x && c.sub_y;
            (c.sub_x, sy, if c.sub_x && sy { c.csp } else { 0 })
        } else {
            (true, false, 0)
        };
        Av1Expect {
            seq_profile: self.profile,
            seq_level_idx_0: level,
            seq_tier_0: tier,
            high_bitdepth: c.high_bitdepth,
            twelve_bit: twelve,
            monochrome: mono,
            sub_x: sx,
            sub_y: sy,
            csp,
        }
    }

    /// Branch-coverage labels exercised by this header (for evidence).
    pub fn branches(&self) -> Vec<&'static str> {
        let mut b = Vec::new();
        b.push(match self.profile {
            0 => "profile0",
            1 => "profile1",
            _ => "profile2",
        });
        if self.reduced {
            b.push("reduced");
        } else {
            b.push(if self.timing.is_some() { "timing" } else { "no-timing" });
            if let Some(t) = &self.timing {
                if let Some(n) = t.equal_picture_interval {
                    b.push(if n >= 255 { "uvlc-long" } else { "uvlc-short" });
                }
                b.push(if self.decoder_model.is_some() { "decoder-model" } else { "no-decoder-model" });
            }
            if self.initial_display_delay_present {
                b.push("display-delay");
            }
            if self.ops.len() > 1 {
                b.push("multi-op");
            }
            if self.ops.len() == 32 {
                b.push("32-ops");
            }
            if self.ops[0].level > 7 {
                b.push("tier-bit");
            }
            if self.frame_id.is_some() {
                b.push("frame-id");
            }
            if self.order_hint.is_some() {
                b.push("order-hint");
            }
            b.push(if self.choose_screen_content { "sct-select" } else if self.force_screen_content { "sct-force1" } else { "sct-force0" });
        }
        let c = &self.color;
        if c.high_bitdepth {
            b.push("hbd");
        }
        if self.profile == 2 && c.high_bitdepth && c.twelve_bit {
            b.push("12bit");
        }
        if self.profile != 1 && c.mono {
            b.push("mono");
        }
        if c.desc.is_some() {
            b.push("color-desc");
        }
        if c.desc == Some((1, 13, 0)) && !(self.profile != 1 && c.mono) {
            b.push("srgb");
        }
        let e = self.expect();
        b.push(match (e.sub_x, e.sub_y, e.monochrome) {
            (_, _, true) => "4:0:0",
            (true, true, _) => "4:2:0",
            (true, false, _) => "4:2:2",
            _ => "4:4:4",
        });
        b
    }
}

/// Random, conformant sequence header covering every syntax branch over time.
pub fn gen_seq_hdr(r: &mut Rng) -> SeqHdr {
    let profile = r.below(3) as u8;
    let reduced = r.chance(1, 6);
    let timing = if !reduced && r.chance(1, 2) {
        Some(Timing {
            num_units_in_display_tick: r.range(1, u32::MAX as u64) as u32,
            time_scale: r.range(1, u32::MAX as u64) as u32,
            equal_picture_interval: if r.chance(1, 2) {
                Some(match r.below(4) {
                    0 => 0,
                    1 => r.below(8) as u32,
                    2 => r.below(70_000) as u32,
                    _ => r.range(1 << 20, (u32::MAX - 1) as u64) as u32,
                })
            } else {
                None
            },
        })
    } else {
        None
    };
    let decoder_model = if timing.is_some() && r.chance(1, 2) {
        Some(DecoderModel {
            buffer_delay_length_minus_1: r.below(32) as u8,
            num_units_in_decoding_tick: r.range(1, u32::MAX as u64) as u32,
            buffer_removal_time_length_minus_1: r.below(32) as u8,
            frame_presentation_time_length_minus_1: r.below(32) as u8,
        })
    } else {
        None
    };
    let idd = !reduced && r.chance(1, 3);
    let nops = if reduced {
        1
    } else {
        match r.below(6) {
            0 => 32,
            1 => r.range(2, 31) as usize,
            2 => 2,
            _ => 1,
        }
    };
    let mut ops = Vec::new();
    for _ in 0..nops {
        let level = match r.below(4) {
            0 => r.below(8) as u8,
            1 => r.range(8, 23) as u8,
            2 => 31,
            _ => r.below(32) as u8,
        };
        let dec_model = decoder_model.as_ref().and_then(|d| {
            if r.chance(1, 2) {
                let n = d.buffer_delay_length_minus_1 as u32 + 1;
                let m = (1u64 << n) - 1;
                Some((r.next_u64() & m, r.next_u64() & m, r.chance(1, 2)))
            } else {
                None
            }
        });
        ops.push(OpPoint {
            idc: r.below(4096) as u16,
            level,
            tier: r.chance(1, 2),
            dec_model,
            display_delay: if idd && r.chance(1, 2) { Some(r.below(16) as u8) } else { None },
        });
    }
    let wb = r.below(16) as u8;
    let hb = r.below(16) as u8;
    let order_hint = if r.chance(1, 2) { Some((r.chance(1, 2), r.chance(1, 2), r.below(8) as u8)) } else { None };
    let high_bitdepth = r.chance(1, 2);
    let twelve_bit = r.chance(1, 2);
    let desc = match r.below(5) {
        0 | 1 => None,
        2 if profile == 1 || (profile == 2 && high_bitdepth && twelve_bit) => Some((1, 13, 0)),
        _ => {
            let mut t = (r.byte(), r.byte(), r.byte());
            if t == (1, 13, 0) {
                t.2 = 1;
            }
            // The identity matrix (0) with other primaries / transfer than sRGB's is, as far as
            // the header SYNTAX goes, an ordinary colour description: colour range, the profile's
            // subsampling and the sample position follow as for any other matrix. (That encoders
            // must pair it with 4:4:4 is a conformance constraint, not syntax - the property
            // speaks of all syntactically valid headers.) One described header in five has it.
            if r.chance(1, 5) {
                t.2 = 0;
                if r.chance(1, 2) {
                    t.0 = 1;
                } else if r.chance(1, 2) {
                    t.1 = 13;
                }
            } else if t.2 == 0 && !(profile == 1) {
                t.2 = 2;
            }
            if t == (1, 13, 0) {
                t.0 = 2;
            }
            Some(t)
        }
    };
    SeqHdr {
        profile,
        still_picture: reduced || r.chance(1, 8),
        reduced,
        level0: r.below(32) as u8,
        timing,
        decoder_model,
        initial_display_delay_present: idd,
        ops,
        width_bits_m1: wb,
        height_bits_m1: hb,
        max_w_m1: (r.next_u64() & ((1u64 << (wb as u32 + 1)) - 1)) as u32,
        max_h_m1: (r.next_u64() & ((1u64 << (hb as u32 + 1)) - 1)) as u32,
        frame_id: if !reduced && r.chance(1, 3) { Some((r.below(16) as u8, r.below(8) as u8)) } else { None },
        sb128: r.chance(1, 2),
        filter_intra: r.chance(1, 2),
        intra_edge: r.chance(1, 2),
        interintra: r.chance(1, 2),
        masked: r.chance(1, 2),
        warped: r.chance(1, 2),
        dual_filter: r.chance(1, 2),
        order_hint,
        choose_screen_content: r.chance(1, 2),
        force_screen_content: r.chance(1, 2),
        choose_integer_mv: r.chance(1, 2),
        force_integer_mv: r.chance(1, 2),
        superres: r.chance(1, 2),
        cdef: r.chance(1, 2),
        restoration: r.chance(1, 2),
        color: Color {
            high_bitdepth,
            twelve_bit,
            mono: r.chance(1, 4),
            desc,
            color_range: r.chance(1, 2),
            sub_x: r.chance(2, 3),
            sub_y: r.chance(1, 2),
            csp: r.below(4) as u8,
            separate_uv_delta_q: r.chance(1, 2),
        },
        film_grain: r.chance(1, 2),
    }
}

pub fn leb128(mut v: u64) -> Vec<u8> {
    let mut out = Vec::new();
    loop {
        let b = (v & 0x7f) as u8;
        v >>= 7;
        if v == 0 {
            out.push(b);
            break;
        }
        out.push(b | 0x80);
    }
    out
}

thread_local! {
    /// extra leading zeros for the reserved uvlc value (see BitWriter::uvlc)
    static UVLC_EXTRA: std::cell::Cell<u32> = const { std::cell::Cell::new(0) };
}

/// A temporal unit whose sequence header carries the reserved / over-long uvlc encodings of
/// num_ticks_per_picture_minus_1 (32, 33, 34 or 40 leading zeros), whole or cut short. Not a
/// conformant header: for the absence-of-panics checks only.
pub fn reserved_uvlc_seq_unit(r: &mut Rng) -> Vec<u8> {
    let mut h = loop {
        let h = gen_seq_hdr(r);
        if !h.reduced {
            break h;
        }
    };
    h.timing = Some(Timing { num_units_in_display_tick: r.range(1, 1000) as u32, time_scale: r.range(1, 90_000) as u32, equal_picture_interval: Some(u32::MAX) });
    UVLC_EXTRA.with(|c| c.set(*r.pick(&[0u32, 0, 0, 1, 2, 8])));
    let full = h.write();
    UVLC_EXTRA.with(|c| c.set(0));
    let k = if r.chance(2, 3) { full.len() } else { r.usize_below(full.len().max(1)) };
    let mut out = Vec::new();
    if r.chance(1, 2) {
        out.extend_from_slice(&obu(2, &[], true, None));
    }
    out.extend_from_slice(&obu(1, &full[..k], true, None));
    let n = r.range(1, 12) as usize;
    out.extend_from_slice(&obu(6, &r.bytes(n), true, None));
    out
}

thread_local! {
    /// extra (padding) bytes appended to every obu_size written by `obu` on this thread: the
    /// specification (4.10.5) allows non-minimal LEB128 encodings of up to 8 bytes
    static LEB_PAD: std::cell::Cell<usize> = const { std::cell::Cell::new(0) };
}

pub fn set_leb_padding(n: usize) {
    LEB_PAD.with(|c| c.set(n));
}

/// LEB128 with `pad` extra bytes (continuation bit on the minimal encoding's last byte, then
/// 0x80 ... 0x00), never longer than 8 bytes in total.
pub fn leb128_padded(v: u64, pad: usize) -> Vec<u8> {
    let mut out = leb128(v);
    let pad = pad.min(8usize.saturating_sub(out.len()));
    if pad > 0 {
        *out.last_mut().unwrap() |= 0x80;
        for _ in 1..pad {
            out.push(0x80);
        }
        out.push(0x00);
    }
    out
}

/// Wrap a payload into an OBU. `ext`: optional extension byte; `has_size`: emit obu_size.
pub fn obu(obu_type: u8, payload: &[u8], has_size: bool, ext: Option<u8>) -> Vec<u8> {
    let mut out = vec![(obu_type << 3) | ((ext.is_some() as u8) << 2) | ((has_size as u8) << 1)];
    if let Some(e) = ext {
        out.push(e);
    }
    if has_size {
        out.extend_from_slice(&leb128_padded(payload.len() as u64, LEB_PAD.with(|c| c.get())));
    }
    out.extend_from_slice(payload);
    out
}

/// A temporal unit whose sequence-header OBU is a valid header cut short at a random byte, with
/// an obu_size that matches the shortened payload (so the cut is inside the header syntax, not in
/// the OBU framing).
pub fn truncated_seq_unit(r: &mut Rng) -> Vec<u8> {
    let full = gen_seq_hdr(r).write();
    let k = r.usize_below(full.len().max(1));
    let mut out = Vec::new();
    if r.chance(1, 2) {
        out.extend_from_slice(&obu(2, &[], true, None));
    }
    out.extend_from_slice(&obu(1, &full[..k], true, None));
    if r.chance(1, 2) {
        let n = r.range(1, 12) as usize;
        out.extend_from_slice(&obu(6, &r.bytes(n), true, None));
    }
    out
}

#[derive(Clone, Debug)]
pub struct Av1Frame {
    pub bytes: Vec<u8>,
    /// bytes of the sequence header OBU inside `bytes` (None when the frame has none)
    pub seq_obu: Option<Vec<u8>>,
    pub hdr: Option<SeqHdr>,
}

/// A temporal unit: [temporal delimiter] [sequence header] [metadata?] frame OBU.
pub fn gen_temporal_unit(r: &mut Rng, key: bool, with_seq: bool, payload_len: usize) -> Av1Frame {
    // one unit in six writes its size fields with 1..7 padding bytes
    set_leb_padding(if r.chance(1, 6) { r.range(1, 7) as usize } else { 0 });
    let f = gen_temporal_unit_inner(r, key, with_seq, payload_len);
    set_leb_padding(0);
    f
}

fn gen_temporal_unit_inner(r: &mut Rng, key: bool, with_seq: bool, payload_len: usize) -> Av1Frame {
    let mut bytes = Vec::new();
    if r.chance(3, 4) {
        bytes.extend_from_slice(&obu(2, &[], true, if r.chance(1, 8) { Some(r.byte() & 0xf8) } else { None }));
    }
    let mut seq_obu = None;
    let mut hdr = None;
    // OBUs a decoder skips, in front of the sequence header: metadata, padding, tile list, the
    // reserved types (AV1 5.3.1: "reserved ... ignored by decoders"), with or without extension
    if r.chance(1, 8) {
        for _ in 0..r.range(1, 2) {
            let t = *r.pick(&[5u8, 15, 8, 9, 10, 11, 12, 13, 14, 15, 5]);
            let n = r.usize_below(24);
            let mut md = r.bytes(n);
            if let Some(b) = md.first_mut() {
                *b &= 0x7f;
            }
            bytes.extend_from_slice(&obu(t, &md, true, if r.chance(1, 4) { Some(r.byte() & 0xf8) } else { None }));
        }
    }
    if with_seq {
        let h = gen_seq_hdr(r);
        let p = h.write();
        // the sequence header is never the last OBU here, so it must carry a size field
        let o = obu(1, &p, true, if r.chance(1, 10) { Some(r.byte() & 0xf8) } else { None });
        bytes.extend_from_slice(&o);
        seq_obu = Some(o);
        hdr = Some(h);
    }
    if r.chance(1, 6) {
        let n = r.usize_below(20) + 1;
        let mut md = r.bytes(n);
        md[0] &= 0x7f;
        bytes.extend_from_slice(&obu(5, &md, true, if r.chance(1, 5) { Some(r.byte() & 0xf8) } else { None }));
    }
    // frame OBU: show_existing_frame=0, frame_type (2 bits), show_frame=1, then noise
    let mut fp = r.bytes(payload_len.max(1));
    let ft: u8 = if key { 0 } else { 1 + r.below(3) as u8 };
    fp[0] = (ft << 5) | 0x10 | (fp[0] & 0x0f);
    let last_has_size = r.chance(4, 5);
    if r.chance(1, 8) {
        bytes.extend_from_slice(&obu(15, &vec![0u8; r.usize_below(9)], true, None)); // padding
    }
    if fp.len() >= 2 && r.chance(1, 6) {
        // frame header OBU + (redundant frame header) + tile group OBU(s) instead of one frame OBU
        let cut = 1 + r.usize_below(fp.len() - 1);
        bytes.extend_from_slice(&obu(3, &fp[..cut], true, None));
        if r.chance(1, 3) {
            bytes.extend_from_slice(&obu(7, &fp[..cut], true, None));
        }
        bytes.extend_from_slice(&obu(4, &fp[cut..], last_has_size, None));
    } else {
        bytes.extend_from_slice(&obu(6, &fp, last_has_size, None));
    }
    Av1Frame { bytes, seq_obu, hdr }
}

#[cfg(test)]
mod tests {
    use super::*;

    #[test]
    fn uvlc_and_leb() {
        let mut w = BitWriter::new();
        w.uvlc(0);
        assert_eq!(w.len_bits(), 1);
        let mut w = BitWriter::new();
        w.uvlc(1); // v=2 -> lz=1: 0 1 0
        assert_eq!(w.len_bits(), 3);
        assert_eq!(w.bytes[0], 0b0100_0000);
        assert_eq!(leb128(0), vec![0]);
        assert_eq!(leb128(128), vec![0x80, 1]);
        assert_eq!(leb128(255), vec![0xff, 1]);
    }

    #[test]
    fn minimal_header_bits() {
        // profile 0, non-reduced, no timing, no idd, one op (idc 0, level 13 -> tier bit), 1x1
        let mut r = Rng::new(1);
        let mut h = gen_seq_hdr(&mut r);
        h.profile = 0;
        h.reduced = false;
        h.still_picture = false;
        h.timing = None;
        h.decoder_model = None;
        h.initial_display_delay_present = false;
        h.ops = vec![OpPoint { idc: 0, level: 13, tier: true, dec_model: None, display_delay: None }];
        let p = h.write();
        // 000 0 0 | 0 (timing) 0 (idd) 00000 (cnt) | 000000000000 (idc) 01101 (level) 1 (tier)
        assert_eq!(p[0], 0b0000_0000);
        assert_eq!(p[1], 0b0000_0000);
        assert_eq!(p[2] >> 7, 0);
        let e = h.expect();
        assert_eq!((e.seq_level_idx_0, e.seq_tier_0), (13, 1));
    }
}

// ---------------------------------------------------------------------------------------------
// Independent reader side (used by the contract model to decide "carries its configuration")
// ---------------------------------------------------------------------------------------------

pub struct BitRd<'a> {
    d: &'a [u8],
    pos: usize,
}

impl<'a> BitRd<'a> {
    pub fn new(d: &'a [u8]) -> Self {
        BitRd { d, pos: 0 }
    }
    pub fn f(&mut self, n: u32) -> Option<u64> {
        let mut v = 0u64;
        for _ in 0..n {
            let byte = *self.d.get(self.pos / 8)?;
            v = (v << 1) | ((byte >> (7 - self.pos % 8)) & 1) as u64;
            self.pos += 1;
        }
        Some(v)
    }
    pub fn b(&mut self) -> Option<bool> {
        self.f(1).map(|x| x == 1)
    }
    pub fn uvlc(&mut self) -> Option<u64> {
        let mut lz = 0;
        while !self.b()? {
            lz += 1;
            if lz > 32 {
                return None;
            }
        }
        if lz >= 32 {
            return Some((1u64 << 32) - 1);
        }
        let v = self.f(lz)?;
        Some(v + (1u64 << lz) - 1)
    }
}

/// sequence_header_obu() per the AV1 specification section 5.5; returns the av1C-relevant fields.
pub fn parse_seq_hdr(p: &[u8]) -> Option<Av1Expect> {
    let mut r = BitRd::new(p);
    let profile = r.f(3)? as u8;
    if profile > 2 {
        return None; // reserved
    }
    let _still = r.b()?;
    let reduced = r.b()?;
    let (level, tier);
    if reduced {
        level = r.f(5)? as u8;
        tier = 0;
    } else {
        let timing = r.b()?;
        let mut dec_model = false;
        let mut bdl = 0u32;
        if timing {
            r.f(32)?;
            r.f(32)?;
            if r.b()? {
                r.uvlc()?;
            }
            dec_model = r.b()?;
            if dec_model {
                bdl = r.f(5)? as u32 + 1;
                r.f(32)?;
                r.f(5)?;
                r.f(5)?;
            }
        }
        let idd = r.b()?;
        let cnt = r.f(5)? as usize + 1;
        let mut l0 = 0;
        let mut t0 = 0;
        for i in 0..cnt {
            r.f(12)?;
            let l = r.f(5)? as u8;
            let t = if l > 7 { r.f(1)? as u8 } else { 0 };
            if i == 0 {
                l0 = l;
                t0 = t;
            }
            if dec_model && r.b()? {
                r.f(bdl)?;
                r.f(bdl)?;
                r.b()?;
            }
            if idd && r.b()? {
                r.f(4)?;
            }
        }
        level = l0;
        tier = t0;
    }
    let wb = r.f(4)? as u32 + 1;
    let hb = r.f(4)? as u32 + 1;
    r.f(wb)?;
    r.f(hb)?;
    if !reduced && r.b()? {
        r.f(4)?;
        r.f(3)?;
    }
    r.f(3)?; // sb128, filter_intra, intra_edge
    if !reduced {
        r.f(4)?; // interintra, masked, warped, dual_filter
        let oh = r.b()?;
        if oh {
            r.f(2)?;
        }
        let sct = if r.b()? { 2 } else { r.f(1)? };
        if sct > 0 && !r.b()? {
            r.b()?;
        }
        if oh {
            r.f(3)?;
        }
    }
    r.f(3)?; // superres, cdef, restoration
    let hbd = r.b()?;
    let twelve = if profile == 2 && hbd { r.b()? } else { false };
    let mono = if profile == 1 { false } else { r.b()? };
    let desc = if r.b()? { Some((r.f(8)?, r.f(8)?, r.f(8)?)) } else { None };
    let (sx, sy, csp);
    if mono {
        r.b()?;
        sx = true;
        sy = true;
        csp = 0;
    } else if desc == Some((1, 13, 0)) {
        sx = false;
        sy = false;
        csp = 0;
        r.b()?; // separate_uv_delta_q
    } else {
        r.b()?; // color_range
        if profile == 0 {
            sx = true;
            sy = true;
        } else if profile == 1 {
            sx = false;
            sy = false;
        } else if twelve {
            sx = r.b()?;
            sy = if sx { r.b()? } else { false };
        } else {
            sx = true;
            sy = false;
        }
        csp = if sx && sy { r.f(2)? as u8 } else { 0 };
        r.b()?; // separate_uv_delta_q
    }
    r.b()?; // film_grain_params_present
    Some(Av1Expect { seq_profile: profile, seq_level_idx_0: level, seq_tier_0: tier, high_bitdepth: hbd, twelve_bit: twelve, monochrome: mono, sub_x: sx, sub_y: sy, csp })
}

#[derive(Clone, Debug, PartialEq)]
pub enum SeqScan {
    /// OBU framing parsed cleanly to the end and there is no sequence header OBU
    NoSeqHdr,
    /// a sequence header OBU with specification-valid syntax: (obu bytes, fields)
    Valid(Vec<u8>, Av1Expect),
    /// anything else (broken framing, header OBU with invalid syntax): don't-care
    Unclear,
}

/// Walk the OBUs of a temporal unit looking for the first sequence header.
pub fn scan_for_seq_hdr(d: &[u8]) -> SeqScan {
    let mut o = 0usize;
    if d.is_empty() {
        return SeqScan::NoSeqHdr;
    }
    while o < d.len() {
        let hb = d[o];
        if hb & 0x80 != 0 {
            return SeqScan::Unclear;
        }
        let typ = (hb >> 3) & 15;
        let ext = hb & 4 != 0;
        let has_size = hb & 2 != 0;
        let mut h = 1;
        if ext {
            if o + 1 >= d.len() {
                return SeqScan::Unclear;
            }
            h = 2;
        }
        let plen;
        if has_size {
            let mut v = 0u64;
            let mut n = 0;
            loop {
                let Some(&b) = d.get(o + h + n) else {
                    return SeqScan::Unclear;
                };
                v |= ((b & 0x7f) as u64) << (7 * n);
                n += 1;
                if b & 0x80 == 0 {
                    break;
                }
                if n >= 8 {
                    return SeqScan::Unclear;
                }
            }
            h += n;
            plen = v as usize;
        } else {
            plen = d.len() - o - h;
        }
        if o + h + plen > d.len() {
            return SeqScan::Unclear;
        }
        if typ == 1 {
            let obu = &d[o..o + h + plen];
            return match parse_seq_hdr(&d[o + h..o + h + plen]) {
                Some(e) => SeqScan::Valid(obu.to_vec(), e),
                None => SeqScan::Unclear,
            };
        }
        o += h + plen;
    }
    SeqScan::NoSeqHdr
}

#[cfg(test)]
mod roundtrip {
    use super::*;
    #[test]
    fn writer_and_reader_agree_on_20000_headers() {
        let mut r = Rng::new(99);
        let mut seen = std::collections::BTreeSet::new();
        for _ in 0..20_000 {
            let h = gen_seq_hdr(&mut r);
            let p = h.write();
            let e = parse_seq_hdr(&p).expect("parse");
            assert_eq!(e, h.expect(), "{:?}", h);
            for b in h.branches() {
                seen.insert(b);
            }
        }
        for must in ["reduced", "timing", "no-timing", "decoder-model", "uvlc-long", "32-ops", "mono", "srgb", "12bit", "4:2:2", "4:4:4", "4:2:0", "4:0:0", "frame-id", "order-hint", "display-delay"] {
            assert!(seen.contains(must), "branch {} never generated", must);
        }
    }
}
