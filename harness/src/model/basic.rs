//! Small executable reference models written from the documents (not from muxide's code):
//! exact tick arithmetic, Annex-B splitting, ADTS / Opus structural validity, calendar.

// ---------------------------------------------------------------------------------------------
// ticks: exact rational evaluation of x * 90000
// ---------------------------------------------------------------------------------------------

/// Result of converting seconds to 90 kHz ticks exactly.
#[derive(Clone, Copy, Debug, PartialEq, Eq)]
pub enum Ticks {
    /// the unique nearest integer
    Exact(u64),
    /// the exact value lies (within float-multiplication error) on a rounding tie: either neighbour
    Either(u64, u64),
    /// at or beyond 2^53 ticks: precision / saturation zone, owned by C16
    Huge,
}

impl Ticks {
    pub fn admits(&self, v: u64) -> bool {
        match *self {
            Ticks::Exact(a) => a == v,
            Ticks::Either(a, b) => a == v || b == v,
            Ticks::Huge => true,
        }
    }
    pub fn candidates(&self) -> Vec<u64> {
        match *self {
            Ticks::Exact(a) => vec![a],
            Ticks::Either(a, b) => vec![a, b],
            Ticks::Huge => vec![],
        }
    }
    pub fn is_huge(&self) -> bool {
        matches!(self, Ticks::Huge)
    }
    pub fn is_ambiguous(&self) -> bool {
        matches!(self, Ticks::Either(..))
    }
    /// representative value (lower candidate)
    pub fn lo(&self) -> Option<u64> {
        match *self {
            Ticks::Exact(a) => Some(a),
            Ticks::Either(a, b) => Some(a.min(b)),
            Ticks::Huge => None,
        }
    }
    pub fn hi(&self) -> Option<u64> {
        match *self {
            Ticks::Exact(a) => Some(a),
            Ticks::Either(a, b) => Some(a.max(b)),
            Ticks::Huge => None,
        }
    }
}

pub const TICK_HUGE: u128 = 1u128 << 53;

/// Exact x * scale for finite x >= 0, rounded to nearest; ties (or values within the error of a
/// single float multiplication of a tie) admit both neighbours.
pub fn ticks_scaled(x: f64, scale: u64) -> Ticks {
    debug_assert!(x.is_finite() && x >= 0.0);
    if x == 0.0 {
        return Ticks::Exact(0);
    }
    let bits = x.to_bits();
    let exp_bits = ((bits >> 52) & 0x7ff) as i64;
    let frac = bits & ((1u64 << 52) - 1);
    let (m, e) = if exp_bits == 0 { (frac, -1074i64) } else { (frac | (1u64 << 52), exp_bits - 1075) };
    // x = m * 2^e exactly
    let n: u128 = (m as u128) * (scale as u128); // < 2^53 * 2^64 is too big in general; scale <= 2^17 here
    if e >= 0 {
        // a normal f64 with non-negative exponent is >= 2^52: far beyond 2^53 ticks
        return Ticks::Huge;
    }
    let k = (-e) as u32;
    if k >= 120 {
        // value < 2^70 / 2^120: rounds to 0 unambiguously
        return Ticks::Exact(0);
    }
    let ip = n >> k;
    if ip >= TICK_HUGE {
        return Ticks::Huge;
    }
    let rem = n & ((1u128 << k) - 1);
    let half = 1u128 << (k - 1);
    // distance from the tie, as a fraction of 1
    let dist = if rem >= half { rem - half } else { half - rem };
    let dist_f = dist as f64 / (1u128 << k) as f64;
    // error bound of one float multiply at magnitude ~ip: ulp/2
    let mag = (ip as f64).max(1.0);
    let ulp_half = mag * f64::EPSILON; // generous: 2 * (ulp/2)
    let nearest = if rem >= half { ip + 1 } else { ip };
    if dist_f <= ulp_half + 1e-12 {
        Ticks::Either(ip as u64, (ip + 1) as u64)
    } else {
        Ticks::Exact(nearest as u64)
    }
}

pub fn ticks(x: f64) -> Ticks {
    ticks_scaled(x, 90_000)
}

// ---------------------------------------------------------------------------------------------
// Annex B
// ---------------------------------------------------------------------------------------------

/// Position and length of the next start code at or after `from`: the leftmost `00 00 01`,
/// extended to the left by one `00` when that byte exists at an index >= from.
pub fn next_start_code(d: &[u8], from: usize) -> Option<(usize, usize)> {
    if d.len() < 3 {
        return None;
    }
    let mut p = from;
    while p + 3 <= d.len() {
        if d[p] == 0 && d[p + 1] == 0 && d[p + 2] == 1 {
            if p > from && d[p - 1] == 0 {
                return Some((p - 1, 4));
            }
            return Some((p, 3));
        }
        p += 1;
    }
    None
}

/// All byte runs that follow a start code up to the next start code / end (may be empty).
pub fn split_units(d: &[u8]) -> Vec<&[u8]> {
    let mut out = Vec::new();
    let mut cur = match next_start_code(d, 0) {
        Some((p, l)) => p + l,
        None => return out,
    };
    loop {
        match next_start_code(d, cur) {
            Some((p, l)) => {
                out.push(&d[cur..p]);
                cur = p + l;
            }
            None => {
                out.push(&d[cur..]);
                break;
            }
        }
    }
    out
}

/// Non-empty units only.
pub fn units(d: &[u8]) -> Vec<&[u8]> {
    split_units(d).into_iter().filter(|u| !u.is_empty()).collect()
}

/// Expected length-prefixed conversion: every non-empty unit with a 4-byte big-endian length;
/// the whole input as one unit when that yields nothing; empty input -> empty output.
pub fn to_length_prefixed(d: &[u8]) -> Vec<u8> {
    let us = units(d);
    let mut out = Vec::new();
    if us.is_empty() {
        if !d.is_empty() {
            out.extend_from_slice(&(d.len() as u32).to_be_bytes());
            out.extend_from_slice(d);
        }
        return out;
    }
    for u in us {
        out.extend_from_slice(&(u.len() as u32).to_be_bytes());
        out.extend_from_slice(u);
    }
    out
}

/// Parse `[len32][payload]*`; None when it does not parse exactly to its end.
pub fn parse_length_prefixed(d: &[u8]) -> Option<Vec<&[u8]>> {
    let mut out = Vec::new();
    let mut p = 0;
    while p < d.len() {
        if p + 4 > d.len() {
            return None;
        }
        let l = u32::from_be_bytes([d[p], d[p + 1], d[p + 2], d[p + 3]]) as usize;
        p += 4;
        if p + l > d.len() {
            return None;
        }
        out.push(&d[p..p + l]);
        p += l;
    }
    Some(out)
}

// ---------------------------------------------------------------------------------------------
// ADTS
// ---------------------------------------------------------------------------------------------

#[derive(Clone, Debug, PartialEq)]
pub enum Adts<'a> {
    /// structurally valid: header length and payload
    Valid { header_len: usize, payload: &'a [u8] },
    /// valid header but zero-length payload (documented neither way: don't-care zone Z4)
    EmptyPayload { header_len: usize },
    Invalid(&'static str),
}

/// Structural validity exactly as documented by `AdtsErrorKind` and the error texts.
pub fn adts(frame: &[u8]) -> Adts<'_> {
    if frame.len() < 7 {
        return Adts::Invalid("too short");
    }
    if frame[0] != 0xff || (frame[1] & 0xf0) != 0xf0 {
        return Adts::Invalid("syncword");
    }
    if (frame[1] & 0x08) != 0 {
        return Adts::Invalid("mpeg version");
    }
    if (frame[1] & 0x06) != 0 {
        return Adts::Invalid("layer");
    }
    let header_len = if (frame[1] & 1) != 0 { 7 } else { 9 };
    if frame.len() < header_len {
        return Adts::Invalid("header length");
    }
    let sfi = (frame[2] >> 2) & 0x0f;
    if sfi > 12 {
        return Adts::Invalid("sample rate index");
    }
    let ch = ((frame[2] & 1) << 2) | (frame[3] >> 6);
    if ch == 0 || ch > 7 {
        return Adts::Invalid("channel config");
    }
    let flen = (((frame[3] & 3) as usize) << 11) | ((frame[4] as usize) << 3) | ((frame[5] as usize) >> 5);
    if flen < header_len {
        return Adts::Invalid("frame length < header");
    }
    if flen > frame.len() {
        return Adts::Invalid("frame length > buffer");
    }
    if flen == header_len {
        return Adts::EmptyPayload { header_len };
    }
    Adts::Valid { header_len, payload: &frame[header_len..flen] }
}

/// Build an ADTS frame from fields (the generator side; payload known by construction).
#[allow(clippy::too_many_arguments)]
pub fn build_adts(profile2: u8, sfi: u8, channel_cfg: u8, protection_absent: bool, payload: &[u8], declared_len: Option<usize>, id_bit: u8, layer: u8) -> Vec<u8> {
    let header_len = if protection_absent { 7 } else { 9 };
    let flen = declared_len.unwrap_or(header_len + payload.len()) & 0x1fff;
    let mut f = vec![0u8; header_len];
    f[0] = 0xff;
    f[1] = 0xf0 | ((id_bit & 1) << 3) | ((layer & 3) << 1) | (protection_absent as u8);
    f[2] = ((profile2 & 3) << 6) | ((sfi & 15) << 2) | ((channel_cfg >> 2) & 1);
    f[3] = ((channel_cfg & 3) << 6) | ((flen >> 11) & 3) as u8;
    f[4] = ((flen >> 3) & 0xff) as u8;
    f[5] = (((flen & 7) << 5) as u8) | 0x1f;
    f[6] = 0xfc;
    if !protection_absent {
        f[7] = 0xab;
        f[8] = 0xcd;
    }
    f.extend_from_slice(payload);
    f
}

/// Set the header fields that carry no framing information (private bit, original/copy, home,
/// copyright bits, buffer fullness, number_of_raw_data_blocks_in_frame) from `x`. The framing
/// rules (7/9-byte header per the protection flag, declared length) do not depend on them.
pub fn scramble_adts_free_bits(f: &mut [u8], x: u64) {
    if f.len() < 7 {
        return;
    }
    f[2] = (f[2] & !0x02) | (((x & 1) as u8) << 1);
    f[3] = (f[3] & !0x3c) | ((((x >> 1) & 0x0f) as u8) << 2);
    f[5] = (f[5] & 0xe0) | (((x >> 5) & 0x1f) as u8);
    f[6] = ((x >> 10) & 0xff) as u8;
}

// ---------------------------------------------------------------------------------------------
// Opus
// ---------------------------------------------------------------------------------------------

#[derive(Clone, Copy, Debug, PartialEq, Eq)]
pub enum OpusVerdict {
    Valid,
    Invalid,
    /// malformed only beyond TOC / frame count (RFC 6716 R1..R7): don't-care zone Z5
    DontCare,
}

pub fn opus(packet: &[u8]) -> OpusVerdict {
    if packet.is_empty() {
        return OpusVerdict::Invalid;
    }
    let code = packet[0] & 3;
    match code {
        0 => OpusVerdict::Valid,
        1 => {
            // RFC: payload must have even length for two equal frames
            if (packet.len() - 1) % 2 != 0 {
                OpusVerdict::DontCare
            } else {
                OpusVerdict::Valid
            }
        }
        2 => {
            if packet.len() < 2 {
                OpusVerdict::DontCare
            } else {
                OpusVerdict::Valid
            }
        }
        _ => {
            if packet.len() < 2 {
                return OpusVerdict::Invalid;
            }
            let count = (packet[1] & 0x3f) as usize;
            if count == 0 {
                return OpusVerdict::Invalid;
            }
            // RFC 6716 3.2.5: a CBR code-3 packet (with or without padding) that satisfies
            // R1..R7 is definitely valid; everything else is left to the don't-care zone.
            let vbr = packet[1] & 0x80 != 0;
            let padded = packet[1] & 0x40 != 0;
            if vbr || count as u32 * opus_frame_samples(packet[0] >> 3) > 5760 {
                return OpusVerdict::DontCare;
            }
            let mut o = 2usize;
            let mut pad = 0usize;
            if padded {
                loop {
                    let Some(&b) = packet.get(o) else {
                        return OpusVerdict::DontCare;
                    };
                    o += 1;
                    if b == 255 {
                        pad += 254;
                    } else {
                        pad += b as usize;
                        break;
                    }
                }
            }
            let rest = packet.len() - o;
            if rest < pad || (rest - pad) % count != 0 || (rest - pad) / count > 1275 {
                return OpusVerdict::DontCare;
            }
            OpusVerdict::Valid
        }
    }
}

/// samples per frame at 48 kHz for TOC config 0..31 (RFC 6716 table 2)
pub fn opus_frame_samples(config: u8) -> u32 {
    match config {
        0..=11 => [480, 960, 1920, 2880][(config % 4) as usize],
        12..=15 => [480, 960][(config % 2) as usize],
        _ => [120, 240, 480, 960][(config % 4) as usize],
    }
}

// ---------------------------------------------------------------------------------------------
// Calendar (civil from days; proleptic Gregorian, Unix epoch)
// ---------------------------------------------------------------------------------------------

/// (year, month, day) for a day count since 1970-01-01 (Hinnant's algorithm, era based, O(1)).
pub fn civil_from_days(days: u64) -> (u64, u32, u32) {
    let z = days as i128 + 719_468;
    let era = z.div_euclid(146_097);
    let doe = z.rem_euclid(146_097);
    let yoe = (doe - doe / 1460 + doe / 36_524 - doe / 146_096) / 365;
    let y = yoe + era * 400;
    let doy = doe - (365 * yoe + yoe / 4 - yoe / 100);
    let mp = (5 * doy + 2) / 153;
    let d = doy - (153 * mp + 2) / 5 + 1;
    let m = if mp < 10 { mp + 3 } else { mp - 9 };
    let y = if m <= 2 { y + 1 } else { y };
    (y as u64, m as u32, d as u32)
}

pub fn iso8601(unix: u64) -> String {
    let (y, m, d) = civil_from_days(unix / 86_400);
    let r = unix % 86_400;
    format!("{:04}-{:02}-{:02}T{:02}:{:02}:{:02}Z", y, m, d, r / 3600, (r % 3600) / 60, r % 60)
}

/// Independent second formulation (month-length walk over a 400-year cycle) used by the
/// self-tests to cross-check `civil_from_days`.
pub fn civil_from_days_slow(days: u64) -> (u64, u32, u32) {
    let cycles = days / 146_097;
    let mut rem = days % 146_097;
    let mut y = 1970 + cycles * 400;
    loop {
        let leap = (y % 4 == 0 && y % 100 != 0) || y % 400 == 0;
        let len = if leap { 366 } else { 365 };
        if rem < len {
            let ml = [31, if leap { 29 } else { 28 }, 31, 30, 31, 30, 31, 31, 30, 31, 30, 31];
            let mut m = 0;
            while rem >= ml[m] {
                rem -= ml[m];
                m += 1;
            }
            return (y, m as u32 + 1, rem as u32 + 1);
        }
        rem -= len;
        y += 1;
    }
}

#[cfg(test)]
mod tests {
    use super::*;

    #[test]
    fn ticks_basic() {
        assert_eq!(ticks(0.0), Ticks::Exact(0));
        assert_eq!(ticks(1.0), Ticks::Exact(90_000));
        assert_eq!(ticks(1.0 / 30.0), Ticks::Exact(3000));
        assert_eq!(ticks(2.0 / 30.0), Ticks::Exact(6000));
        // exact tie: 0.5 tick = 1/180000 s is not representable exactly; use 2^-1 * k
        let t = ticks(0.5 / 90_000.0);
        assert!(t.admits(0) || t.admits(1));
        assert!(ticks(1e300).is_huge());
        assert!(ticks(2f64.powi(53) / 90_000.0 * 2.0).is_huge());
        // float multiply agrees with the model on non-tie values
        for i in 0..100_000u64 {
            let x = i as f64 / 29.97;
            let lib = (x * 90_000.0).round() as u64;
            assert!(ticks(x).admits(lib), "{} {:?} {}", x, ticks(x), lib);
        }
    }

    #[test]
    fn annexb_model() {
        let d = [0, 0, 0, 1, 0x67, 0x42, 0, 0, 1, 0x68, 0xce];
        let u = units(&d);
        assert_eq!(u, vec![&[0x67u8, 0x42][..], &[0x68, 0xce][..]]);
        assert_eq!(units(&[0xaa, 0, 0, 0, 0, 1, 0xbb]), vec![&[0xbb][..]]);
        assert_eq!(split_units(&[0, 0, 1, 0, 0, 1, 5]), vec![&[][..], &[5][..]]);
        assert!(units(&[1, 2, 3]).is_empty());
        assert_eq!(to_length_prefixed(&[1, 2, 3]), vec![0, 0, 0, 3, 1, 2, 3]);
        assert!(to_length_prefixed(&[]).is_empty());
        // a zero before a 3-byte code that is itself preceded by the scan start is not absorbed
        assert_eq!(next_start_code(&[0, 0, 0, 1], 1), Some((1, 3)));
        assert_eq!(next_start_code(&[0, 0, 0, 1], 0), Some((0, 4)));
    }

    #[test]
    fn calendar_cross_check_every_day_to_9999() {
        // 1970-01-01 .. 9999-12-31 = 2932897 days
        let mut n = 0u64;
        for d in 0..2_932_897u64 {
            assert_eq!(civil_from_days(d), civil_from_days_slow(d), "day {}", d);
            n += 1;
        }
        assert_eq!(civil_from_days(2_932_896), (9999, 12, 31));
        assert_eq!(civil_from_days(0), (1970, 1, 1));
        assert_eq!(civil_from_days(11_016), (2000, 2, 29));
        assert_eq!(iso8601(951_782_400), "2000-02-29T00:00:00Z");
        assert_eq!(iso8601(1_234_567_890), "2009-02-13T23:31:30Z");
        assert!(n > 0);
    }

    #[test]
    fn adts_model() {
        let f = build_adts(1, 3, 2, true, &[1, 2, 3], None, 0, 0);
        assert_eq!(adts(&f), Adts::Valid { header_len: 7, payload: &[1, 2, 3] });
        let f = build_adts(1, 3, 2, false, &[9], None, 0, 0);
        assert_eq!(adts(&f), Adts::Valid { header_len: 9, payload: &[9] });
        let f = build_adts(1, 3, 2, true, &[], None, 0, 0);
        assert_eq!(adts(&f), Adts::EmptyPayload { header_len: 7 });
        let f = build_adts(1, 13, 2, true, &[1], None, 0, 0);
        assert!(matches!(adts(&f), Adts::Invalid(_)));
    }
}
