//! VP9 key-frame generator for the frame-header form the library documents and accepts
//! (marker 49 83 42, profile/show_existing/frame_type byte, dimensions as little-endian base-128
//! integers, optional render size, colour byte, optional range byte). Field values are known by
//! construction, so the oracle never re-parses the frame.

use crate::util::Rng;
use serde::{Deserialize, Serialize};

#[derive(Serialize, Deserialize, Clone, Debug, PartialEq)]
pub struct Vp9Fields {
    pub profile: u8,
    pub bit_depth: u8,
    pub color_space: u8,
    pub transfer: u8,
    pub matrix: u8,
    pub full_range: u8,
    pub width: u32,
    pub height: u32,
    pub render: Option<(u32, u32)>,
}

pub fn varuint(mut v: u32) -> Vec<u8> {
    let mut out = Vec::new();
    loop {
        let b = (v & 0x7f) as u8;
        v >>= 7;
        if v == 0 {
            out.push(b);
            break;
        }
        out.push(b | 0x80);
    }
    out
}

pub fn build_keyframe(f: &Vp9Fields, r: &mut Rng, tail: usize) -> Vec<u8> {
    let mut d = vec![0x49, 0x83, 0x42];
    // profile (2 bits) | show_existing_frame=0 | frame_type=0 | noise
    d.push((f.profile << 6) | (r.byte() & 0x0f));
    d.push(r.byte());
    if f.profile >= 2 {
        d.push(r.byte());
    }
    d.extend_from_slice(&varuint(f.width));
    d.extend_from_slice(&varuint(f.height));
    let color_byte = ((f.bit_depth == 10) as u8) | ((f.color_space & 7) << 1) | ((f.transfer & 7) << 4) | ((f.matrix & 1) << 7);
    if let Some((rw, rh)) = f.render {
        // flag byte announcing a separate render size
        let flag = 0x04 | (r.byte() & 0xf8);
        d.push(flag);
        d.extend_from_slice(&varuint(rw));
        d.extend_from_slice(&varuint(rh));
        d.push(color_byte);
    } else {
        // without render size the colour byte doubles as the flag byte: bits 2..3 must be clear
        debug_assert!(color_byte & 0x0c == 0);
        d.push(color_byte);
    }
    // range byte (+ noise). Always followed by at least one more byte so that the library's
    // "one byte left" shortcut is never in play.
    d.push((r.byte() & 0xfe) | (f.full_range & 1));
    d.extend_from_slice(&r.bytes(tail.max(2)));
    d
}

pub fn gen_fields(r: &mut Rng) -> Vp9Fields {
    let render = if r.chance(1, 2) { Some((r.range(1, 8192) as u32, r.range(1, 8192) as u32)) } else { None };
    let color_space = if render.is_some() { r.below(8) as u8 } else { r.below(2) as u8 };
    Vp9Fields {
        profile: r.below(4) as u8,
        bit_depth: if r.chance(1, 2) { 10 } else { 8 },
        color_space,
        transfer: r.below(8) as u8,
        matrix: r.below(2) as u8,
        full_range: r.below(2) as u8,
        width: match r.below(16) {
            0..=3 => r.range(1, 127) as u32,
            4..=7 => r.range(128, 16383) as u32,
            // the header's variable-length integers can code more than 16 bits
            8 => r.range(65_536, 300_000) as u32,
            _ => r.range(1, 65535) as u32,
        },
        height: if r.chance(1, 16) { r.range(65_536, 300_000) as u32 } else { r.range(1, 65535) as u32 },
        render,
    }
}

/// Expected (profile, bit depth, colour space, transfer, matrix, full range) of the config record.
pub fn expect(f: &Vp9Fields) -> (u8, u8, u8, u8, u8, u8) {
    (f.profile, f.bit_depth, f.color_space, f.transfer, f.matrix, if f.color_space != 0 { f.full_range } else { 0 })
}

pub fn delta_frame(r: &mut Rng, len: usize) -> Vec<u8> {
    let mut d = vec![0x49, 0x83, 0x42];
    d.push((r.below(4) as u8) << 6 | 0x10 | (r.byte() & 0x0f));
    d.extend_from_slice(&r.bytes(len.max(2)));
    d
}
