//! History types: configuration, operations, results. (De)serialisable = replay format.

use crate::util::{bf, hexbytes, opt_hexbytes};
use serde::{Deserialize, Serialize};

pub const H264: u8 = 0;
pub const H265: u8 = 1;
pub const AV1: u8 = 2;
pub const VP9: u8 = 3;

/// Audio kind: 0 = AudioCodec::None passed explicitly, 1..=6 = AAC profiles
/// (Lc, Main, Ssr, Ltp, He, Hev2), 7 = Opus.
pub const A_NONE: u8 = 0;
pub const A_OPUS: u8 = 7;

#[derive(Serialize, Deserialize, Clone, Debug, PartialEq)]
pub struct AudioCfg {
    pub kind: u8,
    pub rate: u32,
    pub channels: u16,
}

impl AudioCfg {
    pub fn is_aac(&self) -> bool {
        (1..=6).contains(&self.kind)
    }
    pub fn is_opus(&self) -> bool {
        self.kind == A_OPUS
    }
    pub fn effective(&self) -> bool {
        self.kind != A_NONE
    }
}

#[derive(Serialize, Deserialize, Clone, Debug, PartialEq)]
pub struct Cfg {
    /// false: builder never receives a video configuration (build must fail)
    pub video: bool,
    pub vcodec: u8,
    pub width: u32,
    pub height: u32,
    pub fps_bits: u64,
    pub audio: Option<AudioCfg>,
    /// None: builder default (true)
    pub fast_start: Option<bool>,
    /// with_metadata(...) called at all?
    pub meta: bool,
    pub title: Option<String>,
    pub ctime: Option<u64>,
    pub lang: Option<String>,
    /// API path variant bits: 1 = set_video_track instead of video, 2 = set_audio_track
    /// instead of audio, 4 = set_create_time/set_language instead of Metadata builder,
    /// 8 = each of video()/audio() is preceded by a call with a decoy configuration,
    /// 16 = fast start / metadata are set before the tracks instead of after them
    pub path: u8,
}

impl Cfg {
    pub fn basic(vcodec: u8) -> Cfg {
        Cfg {
            video: true,
            vcodec,
            width: 640,
            height: 480,
            fps_bits: 30.0f64.to_bits(),
            audio: None,
            fast_start: None,
            meta: false,
            title: None,
            ctime: None,
            lang: None,
            path: 0,
        }
    }
    pub fn fast(&self) -> bool {
        self.fast_start.unwrap_or(true)
    }
    pub fn audio_effective(&self) -> Option<&AudioCfg> {
        self.audio.as_ref().filter(|a| a.effective())
    }
    pub fn has_meta(&self) -> bool {
        self.meta || ((self.path & 4) != 0 && (self.ctime.is_some() || self.lang.is_some()))
    }
    pub fn cell(&self) -> String {
        format!(
            "v{}|a{}|fs{}|m{}{}{}",
            self.vcodec,
            self.audio.as_ref().map(|a| a.kind as i32).unwrap_or(-1),
            self.fast() as u8,
            self.title.is_some() as u8,
            self.ctime.is_some() as u8,
            self.lang.is_some() as u8
        )
    }
}

#[derive(Serialize, Deserialize, Clone, Copy, Debug, PartialEq, Eq)]
pub enum FinishKind {
    InPlace,
    InPlaceStats,
    /// consuming variants: the muxer is gone afterwards
    Finish,
    FinishStats,
    Flush,
}

impl FinishKind {
    pub fn consuming(self) -> bool {
        matches!(self, FinishKind::Finish | FinishKind::FinishStats | FinishKind::Flush)
    }
}

#[derive(Serialize, Deserialize, Clone, Debug, PartialEq)]
pub enum Op {
    WriteVideo {
        pts: u64,
        #[serde(with = "hexbytes")]
        data: Vec<u8>,
        key: bool,
    },
    WriteVideoDts {
        pts: u64,
        dts: u64,
        #[serde(with = "hexbytes")]
        data: Vec<u8>,
        key: bool,
    },
    WriteAudio {
        pts: u64,
        #[serde(with = "hexbytes")]
        data: Vec<u8>,
    },
    EncodeVideo {
        #[serde(with = "hexbytes")]
        data: Vec<u8>,
        dur_ms: u32,
    },
    EncodeAudio {
        #[serde(with = "hexbytes")]
        data: Vec<u8>,
        samples: u32,
    },
    Finish(FinishKind),
}

impl Op {
    pub fn wv(pts: f64, data: Vec<u8>, key: bool) -> Op {
        Op::WriteVideo { pts: pts.to_bits(), data, key }
    }
    pub fn wvd(pts: f64, dts: f64, data: Vec<u8>, key: bool) -> Op {
        Op::WriteVideoDts { pts: pts.to_bits(), dts: dts.to_bits(), data, key }
    }
    pub fn wa(pts: f64, data: Vec<u8>) -> Op {
        Op::WriteAudio { pts: pts.to_bits(), data }
    }
    pub fn is_finish(&self) -> bool {
        matches!(self, Op::Finish(_))
    }
    pub fn is_frame_write(&self) -> bool {
        !self.is_finish()
    }
    pub fn is_video(&self) -> bool {
        matches!(self, Op::WriteVideo { .. } | Op::WriteVideoDts { .. } | Op::EncodeVideo { .. })
    }
    pub fn is_audio(&self) -> bool {
        matches!(self, Op::WriteAudio { .. } | Op::EncodeAudio { .. })
    }
    pub fn name(&self) -> &'static str {
        match self {
            Op::WriteVideo { .. } => "write_video",
            Op::WriteVideoDts { .. } => "write_video_with_dts",
            Op::WriteAudio { .. } => "write_audio",
            Op::EncodeVideo { .. } => "encode_video",
            Op::EncodeAudio { .. } => "encode_audio",
            Op::Finish(FinishKind::InPlace) => "finish_in_place",
            Op::Finish(FinishKind::InPlaceStats) => "finish_in_place_with_stats",
            Op::Finish(FinishKind::Finish) => "finish",
            Op::Finish(FinishKind::FinishStats) => "finish_with_stats",
            Op::Finish(FinishKind::Flush) => "flush",
        }
    }
    pub fn data(&self) -> Option<&[u8]> {
        match self {
            Op::WriteVideo { data, .. }
            | Op::WriteVideoDts { data, .. }
            | Op::WriteAudio { data, .. }
            | Op::EncodeVideo { data, .. }
            | Op::EncodeAudio { data, .. } => Some(data),
            Op::Finish(_) => None,
        }
    }
    /// Short, human-readable rendering (for evidence samples).
    pub fn brief(&self) -> String {
        match self {
            Op::WriteVideo { pts, data, key } => {
                format!("wv(pts={:?},len={},key={})", bf(*pts), data.len(), key)
            }
            Op::WriteVideoDts { pts, dts, data, key } => format!(
                "wvd(pts={:?},dts={:?},len={},key={})",
                bf(*pts),
                bf(*dts),
                data.len(),
                key
            ),
            Op::WriteAudio { pts, data } => format!("wa(pts={:?},len={})", bf(*pts), data.len()),
            Op::EncodeVideo { data, dur_ms } => format!("ev(len={},ms={})", data.len(), dur_ms),
            Op::EncodeAudio { data, samples } => format!("ea(len={},n={})", data.len(), samples),
            Op::Finish(k) => format!("{:?}", k),
        }
    }
}

#[derive(Serialize, Deserialize, Clone, Debug, PartialEq)]
pub struct History {
    pub cfg: Cfg,
    pub ops: Vec<Op>,
}

impl History {
    pub fn brief(&self) -> String {
        let mut s = format!("cfg[{}] ", self.cfg.cell());
        for (i, op) in self.ops.iter().enumerate() {
            if i >= 12 {
                s.push_str(&format!("...(+{} ops)", self.ops.len() - i));
                break;
            }
            s.push_str(&op.brief());
            s.push(' ');
        }
        s
    }
    pub fn hash(&self) -> u64 {
        crate::util::fnv(serde_json::to_string(self).unwrap_or_default().as_bytes())
    }
}

/// Statistics payload of a successful finish.
#[derive(Serialize, Deserialize, Clone, Debug, PartialEq)]
pub struct Stats {
    pub video_frames: u64,
    pub audio_frames: u64,
    pub duration_bits: u64,
    pub bytes_written: u64,
}

/// Classification of an error (contract precondition class).
#[derive(Serialize, Deserialize, Clone, Copy, Debug, PartialEq, Eq, Hash, PartialOrd, Ord)]
pub enum ErrClass {
    MissingVideoConfig,
    Finished,
    AudioNotConfigured,
    EmptyVideo,
    EmptyAudio,
    NonFiniteVideoPts,
    NegativeVideoPts,
    NonFiniteVideoDts,
    NegativeVideoDts,
    NonFiniteAudioPts,
    NegativeAudioPts,
    VideoOrdering,
    DtsOrdering,
    AudioOrdering,
    AudioBeforeVideo,
    FirstNotKey,
    FirstMissingConfig,
    AdtsFraming,
    OpusFraming,
    GapOverflow,
    Io,
    Other,
}

#[derive(Serialize, Deserialize, Clone, Debug, PartialEq)]
pub struct ErrInfo {
    pub variant: String,
    pub class: ErrClass,
    /// canonical full rendering (Debug with f64 as bits where relevant)
    pub detail: String,
    /// io::ErrorKind for Io errors
    pub io_kind: Option<String>,
}

#[derive(Serialize, Deserialize, Clone, Debug, PartialEq)]
pub enum Res {
    Ok,
    OkStats(Stats),
    Err(ErrInfo),
    Panic { msg: String, loc: String },
    /// not executed (muxer consumed / build failed / earlier panic)
    Skipped,
}

impl Res {
    pub fn is_ok(&self) -> bool {
        matches!(self, Res::Ok | Res::OkStats(_))
    }
    pub fn is_err(&self) -> bool {
        matches!(self, Res::Err(_))
    }
    pub fn is_panic(&self) -> bool {
        matches!(self, Res::Panic { .. })
    }
    pub fn err(&self) -> Option<&ErrInfo> {
        match self {
            Res::Err(e) => Some(e),
            _ => None,
        }
    }
    pub fn brief(&self) -> String {
        match self {
            Res::Ok => "Ok".into(),
            Res::OkStats(s) => format!(
                "Ok(v={},a={},dur={:?},bytes={})",
                s.video_frames,
                s.audio_frames,
                bf(s.duration_bits),
                s.bytes_written
            ),
            Res::Err(e) => format!("Err({})", e.variant),
            Res::Panic { msg, .. } => format!("PANIC({})", msg.chars().take(60).collect::<String>()),
            Res::Skipped => "Skipped".into(),
        }
    }
}

// ---------------------------------------------------------------------------------------------
// Fragmented histories
// ---------------------------------------------------------------------------------------------

#[derive(Serialize, Deserialize, Clone, Debug, PartialEq)]
pub struct FragCfg {
    pub vcodec: u8,
    pub width: u32,
    pub height: u32,
    /// construct through MuxerBuilder::new_with_fragment (true) or FragmentConfig directly
    pub via_builder: bool,
    pub timescale: u32,
    pub fragment_duration_ms: u32,
    #[serde(with = "opt_hexbytes")]
    pub sps: Option<Vec<u8>>,
    #[serde(with = "opt_hexbytes")]
    pub pps: Option<Vec<u8>>,
    #[serde(with = "opt_hexbytes")]
    pub vps: Option<Vec<u8>>,
    #[serde(with = "opt_hexbytes")]
    pub av1_seq: Option<Vec<u8>>,
    /// (width,height,profile,bit_depth,color_space,transfer,matrix,level,full_range)
    pub vp9: Option<[u32; 9]>,
    pub lang: Option<String>,
    /// builder path variant bits (via_builder only): 1 = set_video_track instead of video,
    /// 2 = parameter sets / headers given BEFORE the track call, 4 = a decoy track call with
    /// another codec first (the last track call wins, supplied parameters are kept)
    #[serde(default)]
    pub path: u8,
}

#[derive(Serialize, Deserialize, Clone, Debug, PartialEq)]
pub enum FOp {
    Write {
        pts: u64,
        dts: u64,
        #[serde(with = "hexbytes")]
        data: Vec<u8>,
        sync: bool,
    },
    Flush,
    Ready,
    CurDur,
    Init,
}

impl FOp {
    pub fn brief(&self) -> String {
        match self {
            FOp::Write { pts, dts, data, sync } => {
                format!("w(pts={},dts={},len={},sync={})", pts, dts, data.len(), sync)
            }
            FOp::Flush => "flush".into(),
            FOp::Ready => "ready?".into(),
            FOp::CurDur => "curdur?".into(),
            FOp::Init => "init".into(),
        }
    }
}

#[derive(Serialize, Deserialize, Clone, Debug, PartialEq)]
pub enum FRes {
    Ok,
    Err { prev: u64, curr: u64 },
    Seg(#[serde(with = "opt_hexbytes")] Option<Vec<u8>>),
    Bool(bool),
    U64(u64),
    Bytes(#[serde(with = "hexbytes")] Vec<u8>),
    Panic { msg: String, loc: String },
    Skipped,
}

#[derive(Serialize, Deserialize, Clone, Debug, PartialEq)]
pub struct FHistory {
    pub cfg: FragCfg,
    pub ops: Vec<FOp>,
}

impl FHistory {
    pub fn brief(&self) -> String {
        let mut s = format!(
            "fcfg[v{} {}x{} ts={} builder={}] ",
            self.cfg.vcodec, self.cfg.width, self.cfg.height, self.cfg.timescale, self.cfg.via_builder
        );
        for (i, op) in self.ops.iter().enumerate() {
            if i >= 14 {
                s.push_str(&format!("...(+{} ops)", self.ops.len() - i));
                break;
            }
            s.push_str(&op.brief());
            s.push(' ');
        }
        s
    }
    pub fn hash(&self) -> u64 {
        crate::util::fnv(serde_json::to_string(self).unwrap_or_default().as_bytes())
    }
}
