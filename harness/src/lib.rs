//! vharness: runtime-monitoring harness for muxide (see /verif/DESIGN.md).
pub mod bmff;
pub mod exec;
pub mod fuzzdec;
pub mod gen;
pub mod hist;
pub mod model;
pub mod mon;
pub mod run;
pub mod run2;
pub mod sink;
pub mod specdec;
pub mod util;
