//! Small shared utilities: seeded RNG (splitmix64), hashing, hex.

/// splitmix64: tiny, seedable, good enough for workload generation.
#[derive(Clone, Debug)]
pub struct Rng(pub u64);

impl Rng {
    pub fn new(seed: u64) -> Self {
        Rng(seed ^ 0x9E37_79B9_7F4A_7C15)
    }
    pub fn next_u64(&mut self) -> u64 {
        self.0 = self.0.wrapping_add(0x9E37_79B9_7F4A_7C15);
        let mut z = self.0;
        z = (z ^ (z >> 30)).wrapping_mul(0xBF58_476D_1CE4_E5B9);
        z = (z ^ (z >> 27)).wrapping_mul(0x94D0_49BB_1331_11EB);
        z ^ (z >> 31)
    }
    /// uniform in 0..n (n > 0)
    pub fn below(&mut self, n: u64) -> u64 {
        if n == 0 {
            return 0;
        }
        self.next_u64() % n
    }
    pub fn usize_below(&mut self, n: usize) -> usize {
        self.below(n as u64) as usize
    }
    /// inclusive range
    pub fn range(&mut self, lo: u64, hi: u64) -> u64 {
        if hi <= lo {
            return lo;
        }
        lo + self.below(hi - lo + 1)
    }
    /// Any legal picture dimension (1..=65535): the middle of the range, odd values, and the
    /// neighbourhood of every byte / nibble boundary - not only the sizes cameras produce.
    pub fn any_dim(&mut self) -> u32 {
        match self.below(6) {
            0 => self.range(1, 65_535) as u32,
            1 => self.range(1, 4_096) as u32,
            2 => (1u32 << self.range(1, 15)) + self.range(0, 2) as u32 - 1,
            3 => (self.range(1, 255) as u32) << 8 | *self.pick(&[0u32, 1, 0x7f, 0x80, 0xfe, 0xff]),
            4 => *self.pick(&[255u32, 256, 257, 1023, 1025, 4095, 4097, 32_767, 32_768, 32_769, 65_534, 0x1234, 0xabcd, 1921, 1081, 853, 2]),
            _ => self.range(17, 2_000) as u32 | 1,
        }
    }
    /// true with probability num/den
    pub fn chance(&mut self, num: u64, den: u64) -> bool {
        self.below(den) < num
    }
    pub fn pick<'a, T>(&mut self, xs: &'a [T]) -> &'a T {
        &xs[self.usize_below(xs.len())]
    }
    pub fn byte(&mut self) -> u8 {
        (self.next_u64() >> 24) as u8
    }
    pub fn bytes(&mut self, n: usize) -> Vec<u8> {
        let mut v = Vec::with_capacity(n);
        while v.len() < n {
            let x = self.next_u64().to_le_bytes();
            let take = (n - v.len()).min(8);
            v.extend_from_slice(&x[..take]);
        }
        v
    }
    /// n random bytes with n uniform in lo..=hi
    pub fn bytes_range(&mut self, lo: u64, hi: u64) -> Vec<u8> {
        let n = self.range(lo, hi) as usize;
        self.bytes(n)
    }
    pub fn f64_unit(&mut self) -> f64 {
        (self.next_u64() >> 11) as f64 / (1u64 << 53) as f64
    }
    pub fn fork(&mut self) -> Rng {
        Rng::new(self.next_u64())
    }
    pub fn shuffle<T>(&mut self, xs: &mut [T]) {
        for i in (1..xs.len()).rev() {
            let j = self.usize_below(i + 1);
            xs.swap(i, j);
        }
    }
}

pub fn mix(a: u64, b: u64) -> u64 {
    let mut r = Rng::new(a.wrapping_mul(0x2545_F491_4F6C_DD1D) ^ b);
    r.next_u64()
}

pub fn fnv(data: &[u8]) -> u64 {
    let mut h: u64 = 0xcbf2_9ce4_8422_2325;
    for &b in data {
        h ^= b as u64;
        h = h.wrapping_mul(0x0000_0100_0000_01b3);
    }
    h
}

pub fn fnv_str(s: &str) -> u64 {
    fnv(s.as_bytes())
}

pub fn hex(data: &[u8]) -> String {
    let mut s = String::with_capacity(data.len() * 2);
    for b in data {
        s.push_str(&format!("{:02x}", b));
    }
    s
}

pub fn unhex(s: &str) -> Option<Vec<u8>> {
    let b = s.as_bytes();
    if b.len() % 2 != 0 {
        return None;
    }
    let mut out = Vec::with_capacity(b.len() / 2);
    for i in (0..b.len()).step_by(2) {
        let hi = (b[i] as char).to_digit(16)?;
        let lo = (b[i + 1] as char).to_digit(16)?;
        out.push((hi * 16 + lo) as u8);
    }
    Some(out)
}

/// Abbreviated hex for messages.
pub fn hex_short(data: &[u8]) -> String {
    if data.len() <= 24 {
        hex(data)
    } else {
        format!("{}..{}(len {})", hex(&data[..12]), hex(&data[data.len() - 8..]), data.len())
    }
}

pub fn be16(b: &[u8]) -> u16 {
    u16::from_be_bytes([b[0], b[1]])
}
pub fn be32(b: &[u8]) -> u32 {
    u32::from_be_bytes([b[0], b[1], b[2], b[3]])
}
pub fn be64(b: &[u8]) -> u64 {
    u64::from_be_bytes([b[0], b[1], b[2], b[3], b[4], b[5], b[6], b[7]])
}

pub mod hexbytes {
    use serde::{Deserialize, Deserializer, Serializer};
    pub fn serialize<S: Serializer>(v: &Vec<u8>, s: S) -> Result<S::Ok, S::Error> {
        s.serialize_str(&super::hex(v))
    }
    pub fn deserialize<'de, D: Deserializer<'de>>(d: D) -> Result<Vec<u8>, D::Error> {
        let s = String::deserialize(d)?;
        super::unhex(&s).ok_or_else(|| serde::de::Error::custom("bad hex"))
    }
}

pub mod opt_hexbytes {
    use serde::{Deserialize, Deserializer, Serializer};
    pub fn serialize<S: Serializer>(v: &Option<Vec<u8>>, s: S) -> Result<S::Ok, S::Error> {
        match v {
            Some(v) => s.serialize_some(&super::hex(v)),
            None => s.serialize_none(),
        }
    }
    pub fn deserialize<'de, D: Deserializer<'de>>(d: D) -> Result<Option<Vec<u8>>, D::Error> {
        let s: Option<String> = Option::deserialize(d)?;
        match s {
            None => Ok(None),
            Some(s) => super::unhex(&s)
                .map(Some)
                .ok_or_else(|| serde::de::Error::custom("bad hex")),
        }
    }
}

/// f64 <-> bits helpers for JSON-safe storage.
pub fn fb(x: f64) -> u64 {
    x.to_bits()
}
pub fn bf(b: u64) -> f64 {
    f64::from_bits(b)
}

/// Build/scratch directory of the framework (set by the driver; everything a check needs lives
/// below it, nothing under /tmp).
pub fn target_dir() -> String {
    std::env::var("VH_TARGET").unwrap_or_else(|_| "/verif/.target".to_string())
}
