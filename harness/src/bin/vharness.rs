//! vharness run --prop C01 --tier quick --seed 1 --shard 0 --nshards 16 --out FILE [--start K] [--max-cases N] [--budget-secs S]
//! vharness replay FILE            re-execute a recorded witness and re-run its monitor
//! vharness gen --prop C01 --tier quick --seed 1 --index I     print the case as JSON

use std::sync::atomic::Ordering;
use std::sync::Arc;
use std::time::Duration;
use vharness::mon::Obs;
use vharness::run::*;

fn arg(args: &[String], name: &str) -> Option<String> {
    args.iter().position(|a| a == name).and_then(|i| args.get(i + 1).cloned())
}

fn main() {
    vharness::exec::install_panic_hook();
    let args: Vec<String> = std::env::args().collect();
    let cmd = args.get(1).map(|s| s.as_str()).unwrap_or("");
    match cmd {
        "run" => {
            let prop = arg(&args, "--prop").expect("--prop");
            let tier = if arg(&args, "--tier").as_deref() == Some("thorough") { Tier::Thorough } else { Tier::Quick };
            let seed: u64 = arg(&args, "--seed").and_then(|s| s.parse().ok()).unwrap_or(1);
            let shard: u32 = arg(&args, "--shard").and_then(|s| s.parse().ok()).unwrap_or(0);
            let nshards: u32 = arg(&args, "--nshards").and_then(|s| s.parse().ok()).unwrap_or(1);
            let out = arg(&args, "--out").expect("--out");
            let (total, secs) = budget(&prop, tier);
            let max_cases: u64 = arg(&args, "--max-cases").and_then(|s| s.parse().ok()).unwrap_or((total + nshards as u64 - 1) / nshards as u64);
            let budget_secs: u64 = arg(&args, "--budget-secs").and_then(|s| s.parse().ok()).unwrap_or(secs);
            let start_index: u64 = arg(&args, "--start").and_then(|s| s.parse().ok()).unwrap_or(0);
            let skip: Vec<u64> = arg(&args, "--skip").map(|s| s.split(',').filter_map(|x| x.parse().ok()).collect()).unwrap_or_default();
            let a = ShardArgs { prop: prop.clone(), tier, seed, shard, nshards, start_index, max_cases, budget: Duration::from_secs(budget_secs), skip, checkpoint: Some(out.clone()) };
            // watchdog: a case that makes no progress for `stall` seconds is written out as a hang
            // candidate and the process exits with status 3 (the driver re-runs it alone)
            let progress = Arc::new(Progress { current: Default::default(), beat: Default::default() });
            let p2 = progress.clone();
            let stall: u64 = arg(&args, "--stall-secs").and_then(|s| s.parse().ok()).unwrap_or(if prop == "C12" || prop == "C18" || prop == "C20" { 5 } else { 60 });
            let out2 = out.clone();
            let (prop2, tier2) = (prop.clone(), tier);
            std::thread::spawn(move || {
                let mut last = (u64::MAX, 0u64, std::time::Instant::now());
                loop {
                    std::thread::sleep(Duration::from_millis(200));
                    let cur = p2.current.load(Ordering::SeqCst);
                    let beat = p2.beat.load(Ordering::SeqCst);
                    if cur == u64::MAX {
                        return;
                    }
                    if (cur, beat) != (last.0, last.1) {
                        last = (cur, beat, std::time::Instant::now());
                    } else if last.2.elapsed() >= Duration::from_secs(stall) {
                        let case = gen_case(&prop2, tier2, seed, cur);
                        let w = serde_json::json!({"prop": prop2, "index": cur, "case": case, "stalled_secs": stall});
                        let path = format!("{}.hang.json", out2);
                        let _ = std::fs::write(&path, serde_json::to_string(&w).unwrap());
                        eprintln!("HANG-CANDIDATE {}", path);
                        std::process::exit(3);
                    }
                }
            });
            let (res, hashes) = run_shard(&a, Some(progress));
            vharness::run::write_result(&out, &res, &hashes);
        }
        "replay" => {
            let path = args.get(2).expect("file");
            let txt = std::fs::read_to_string(path).expect("read replay file");
            let v: serde_json::Value = serde_json::from_str(&txt).expect("json");
            let prop = v["prop"].as_str().expect("prop").to_string();
            let case: Case = serde_json::from_value(v["case"].clone()).expect("case");
            let mut obs = Obs::default();
            let vs = vharness::run::eval_case(&prop, &case, &mut obs);
            println!("replayed {} case: {}", prop, case.brief());
            let mut sigs = Vec::new();
            for x in &vs {
                println!("  VIOLATION-SIG {}|{}", x.prop, x.sig);
                println!("    {}", x.detail);
                sigs.push(format!("{}|{}", x.prop, x.sig));
            }
            if vs.is_empty() {
                println!("  no violation observed");
            }
            let res = serde_json::json!({"prop": prop, "sigs": sigs});
            if let Some(o) = arg(&args, "--out") {
                let _ = std::fs::write(o, res.to_string());
            }
        }
        "gen" => {
            let prop = arg(&args, "--prop").expect("--prop");
            let tier = if arg(&args, "--tier").as_deref() == Some("thorough") { Tier::Thorough } else { Tier::Quick };
            let seed: u64 = arg(&args, "--seed").and_then(|s| s.parse().ok()).unwrap_or(1);
            let idx: u64 = arg(&args, "--index").and_then(|s| s.parse().ok()).unwrap_or(0);
            let c = gen_case(&prop, tier, seed, idx);
            println!("{}", serde_json::to_string_pretty(&serde_json::json!({"prop": prop, "case": c})).unwrap());
        }
        _ => {
            eprintln!("usage: vharness run|replay|gen ...");
            std::process::exit(2);
        }
    }
}
