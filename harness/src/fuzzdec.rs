//! Byte-driven decoder shared by the libFuzzer target (/verif/fuzz) and the replay path: the
//! input bytes are decoded into calls of the public API (free codec/validation functions, a
//! progressive muxer history, or a fragmented history), executed under the panic guard.

use crate::hist::*;
use crate::mon::c12::FreeOp;
use crate::mon::{Obs, Violation};

fn take<'a>(d: &mut &'a [u8], n: usize) -> &'a [u8] {
    let n = n.min(d.len());
    let (a, b) = d.split_at(n);
    *d = b;
    a
}
fn byte(d: &mut &[u8]) -> u8 {
    take(d, 1).first().copied().unwrap_or(0)
}
fn ts(d: &mut &[u8], last: &mut f64) -> f64 {
    match byte(d) % 8 {
        0 => *last,
        1 => f64::NAN,
        2 => -1.0,
        3 => f64::INFINITY,
        4 => {
            let b = take(d, 8);
            let mut a = [0u8; 8];
            a[..b.len()].copy_from_slice(b);
            f64::from_bits(u64::from_le_bytes(a))
        }
        _ => {
            *last += byte(d) as f64 / 240.0 + 1.0 / 90_000.0;
            *last
        }
    }
}
fn chunk(d: &mut &[u8]) -> Vec<u8> {
    let n = byte(d) as usize;
    take(d, n).to_vec()
}


fn conv(ps: Vec<(String, String, String)>) -> Vec<Violation> {
    ps.into_iter().map(|(n, m, l)| crate::mon::c12::panic_violation(&n, &m, &l, "fuzz input")).collect()
}

/// Decode and execute; returns the C12 violations (panics) observed.
pub fn eval(data: &[u8], obs: &mut Obs) -> Vec<Violation> {
    let mut d = data;
        let sel = byte(&mut d);
    let viols: Vec<Violation> = match sel % 4 {
        0 => {
            let from = byte(&mut d) as usize;
            conv(crate::mon::c12::run_free(&FreeOp::CodecBytes { data: d.to_vec(), from }, obs))
        }
        1 => {
            let codec = byte(&mut d) % 4;
            let key = byte(&mut d) & 1 == 1;
            let mut a = conv(crate::mon::c12::run_free(&FreeOp::ValidateVideoFrame { codec, data: d.to_vec(), key }, obs));
            a.extend(conv(crate::mon::c12::run_free(&FreeOp::ValidateAudioFrame { kind: byte(&mut d) % 8, data: d.to_vec() }, obs)));
            a
        }
        2 => {
            let mut cfg = Cfg::basic(byte(&mut d) % 4);
            let ak = byte(&mut d) % 9;
            if ak < 8 {
                cfg.audio = Some(AudioCfg { kind: ak, rate: [48_000u32, 44_100, 0, 96_000][(byte(&mut d) % 4) as usize], channels: byte(&mut d) as u16 });
            }
            cfg.fast_start = Some(byte(&mut d) & 1 == 1);
            if byte(&mut d) & 1 == 1 {
                cfg.meta = true;
                cfg.lang = Some(String::from_utf8_lossy(&chunk(&mut d)).to_string());
                cfg.title = Some(String::from_utf8_lossy(&chunk(&mut d)).to_string());
            }
            let mut ops = Vec::new();
            let (mut lv, mut la) = (0.0f64, 0.0f64);
            while !d.is_empty() && ops.len() < 24 {
                let op = match byte(&mut d) % 7 {
                    0 => Op::wv(ts(&mut d, &mut lv), chunk(&mut d), byte(&mut d) & 1 == 1),
                    1 => {
                        let p = ts(&mut d, &mut lv);
                        Op::wvd(p, ts(&mut d, &mut lv), chunk(&mut d), byte(&mut d) & 1 == 1)
                    }
                    2 => Op::wa(ts(&mut d, &mut la), chunk(&mut d)),
                    3 => Op::EncodeVideo { data: chunk(&mut d), dur_ms: byte(&mut d) as u32 },
                    4 => Op::EncodeAudio { data: chunk(&mut d), samples: byte(&mut d) as u32 * 8 },
                    5 => Op::Finish(FinishKind::InPlaceStats),
                    _ => Op::Finish(FinishKind::InPlace),
                };
                ops.push(op);
            }
            ops.push(Op::Finish(FinishKind::FinishStats));
            let h = History { cfg, ops };
            let (ex, _s) = crate::exec::run(&h, &crate::exec::ExecOpts { render_errors: true, ..Default::default() });
            crate::mon::c12::check_exec(&h, &ex, obs)
        }
        _ => {
            let vcodec = byte(&mut d) % 4;
            let cfg = FragCfg {
                vcodec,
                width: u32::from_le_bytes([byte(&mut d), byte(&mut d), byte(&mut d), 0]),
                height: byte(&mut d) as u32 * 16,
                via_builder: byte(&mut d) & 1 == 1,
                timescale: [90_000u32, 0, 1, u32::MAX][(byte(&mut d) % 4) as usize],
                fragment_duration_ms: byte(&mut d) as u32 * 16,
                sps: Some(chunk(&mut d)),
                pps: Some(chunk(&mut d)),
                vps: if vcodec == 1 { Some(chunk(&mut d)) } else { None },
                av1_seq: if vcodec == 2 { Some(chunk(&mut d)) } else { None },
                vp9: if vcodec == 3 { Some([byte(&mut d) as u32; 9]) } else { None },
                lang: if byte(&mut d) & 1 == 1 { Some(String::from_utf8_lossy(&chunk(&mut d)).to_string()) } else { None },
                path: 0,
            };
            let mut ops = vec![FOp::Init];
            while !d.is_empty() && ops.len() < 24 {
                ops.push(match byte(&mut d) % 6 {
                    0 | 1 => {
                        let b = take(&mut d, 16);
                        let mut a = [0u8; 16];
                        a[..b.len()].copy_from_slice(b);
                        FOp::Write { pts: u64::from_le_bytes(a[..8].try_into().unwrap()), dts: u64::from_le_bytes(a[8..].try_into().unwrap()), data: chunk(&mut d), sync: a[0] & 1 == 1 }
                    }
                    2 => FOp::Flush,
                    3 => FOp::Ready,
                    4 => FOp::CurDur,
                    _ => FOp::Init,
                });
            }
            ops.push(FOp::Flush);
            let h = FHistory { cfg, ops };
            let ex = crate::exec::run_frag(&h, &crate::exec::ExecOpts::default());
            crate::mon::c12::check_fexec(&h, &ex, obs)
        }
    };
    viols
}
