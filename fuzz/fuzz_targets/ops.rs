//! Coverage-guided driver for C12 (see vharness::fuzzdec): a panic inside any public call aborts
//! the process so that libFuzzer keeps the input as a crash artifact.
#![no_main]
use libfuzzer_sys::fuzz_target;

fuzz_target!(|data: &[u8]| {
    static INIT: std::sync::Once = std::sync::Once::new();
    INIT.call_once(vharness::exec::install_panic_hook);
    let mut obs = vharness::mon::Obs::default();
    if !vharness::fuzzdec::eval(data, &mut obs).is_empty() {
        std::process::abort();
    }
});
