"""Property-specific pieces of the driver (extra builds, post-processing, crash attribution)."""
import json, os, subprocess, sys

REPO = "/repo"


def setup(env, target):
    build_cli(env, target)


def build_cli(env, target):
    e = dict(env)
    e["CARGO_TARGET_DIR"] = os.path.join(target, "cli")
    r = subprocess.run(["cargo", "build", "--offline", "--manifest-path", os.path.join(REPO, "Cargo.toml"), "--bin", "muxide"], env=e, stdout=subprocess.PIPE, stderr=subprocess.STDOUT, text=True)
    if r.returncode != 0:
        sys.stdout.write(r.stdout[-3000:])
        print("HARNESS-ERROR: building the muxide CLI failed")
        sys.exit(2)


def prepare(prop, tier, env, target):
    """Extra build steps needed before the shards run."""
    if prop == "C20":
        build_cli(env, target)
    os.makedirs(os.path.join(target, "tmp"), exist_ok=True)


def extra_args(prop, tier):
    return []


def case_entry(case):
    if not case:
        return "?"
    if isinstance(case, dict):
        k = list(case.keys())[0]
        c = case[k]
        if k == "Hist":
            ops = c["h"]["ops"]
            if ops:
                last = ops[-1]
                return "Hist:" + (list(last.keys())[0] if isinstance(last, dict) else str(last))
        if k == "Cli":
            return "Cli:" + c.get("cmd", "?")
        return k
    return str(case)


def attribute_crash(vh, prop, tier, seed, crash, nshards, outdir):
    """A shard died (abort / signal): find the case by re-running it one case at a time."""
    s = crash["shard"]
    k = crash.get("start", 0)
    for _ in range(200000):
        out = os.path.join(outdir, f"probe{s}.json")
        r = subprocess.run([vh, "run", "--prop", prop, "--tier", tier, "--seed", str(seed), "--shard", str(s), "--nshards", str(nshards), "--out", out, "--start", str(k), "--max-cases", "256"], stdout=subprocess.PIPE, stderr=subprocess.PIPE, text=True)
        if r.returncode == 0:
            k += 256
            if k > 10_000_000:
                return None
            continue
        # narrow down inside this block
        for j in range(k, k + 256):
            r1 = subprocess.run([vh, "run", "--prop", prop, "--tier", tier, "--seed", str(seed), "--shard", str(s), "--nshards", str(nshards), "--out", out, "--start", str(j), "--max-cases", "1"], stdout=subprocess.PIPE, stderr=subprocess.PIPE, text=True)
            if r1.returncode != 0:
                idx = j * nshards + s
                g = subprocess.run([vh, "gen", "--prop", prop, "--tier", tier, "--seed", str(seed), "--index", str(idx)], stdout=subprocess.PIPE, text=True)
                case = json.loads(g.stdout)["case"]
                sig = f"{prop}|abort|rc={r1.returncode}|{case_entry(case)}"
                return {"sig": sig, "count": 1, "detail": f"process died (rc={r1.returncode}) while evaluating this case: {r1.stderr[-300:]}", "case": case}
        return None
    return None


def run_one(binary, prop, tier, seed, shard, nshards, max_cases, out, env_extra=None, start=0, timeout=1800, pre=None):
    e = dict(os.environ)
    if env_extra:
        e.update(env_extra)
    cmd = (pre or []) + [binary, "run", "--prop", prop, "--tier", tier, "--seed", str(seed), "--shard", str(shard), "--nshards", str(nshards), "--out", out, "--start", str(start), "--max-cases", str(max_cases), "--budget-secs", str(timeout)]
    try:
        r = subprocess.run(cmd, env=e, stdout=subprocess.PIPE, stderr=subprocess.PIPE, text=True, timeout=timeout + 120)
    except subprocess.TimeoutExpired:
        return None, "timeout", None
    res = None
    if os.path.exists(out):
        try:
            res = json.load(open(out))
        except Exception:
            res = None
    return r.returncode, r.stderr, res


def parallel(jobs, nproc=16):
    """jobs: list of zero-arg callables; run in a thread pool (each spawns a subprocess)."""
    from concurrent.futures import ThreadPoolExecutor
    with ThreadPoolExecutor(max_workers=nproc) as ex:
        return list(ex.map(lambda f: f(), jobs))


def cargo(args, env, target_sub, target, extra_env=None, cwd=None, timeout=3600):
    e = dict(env)
    e["CARGO_TARGET_DIR"] = os.path.join(target, target_sub)
    if extra_env:
        e.update(extra_env)
    return subprocess.run(["cargo"] + args, env=e, cwd=cwd, stdout=subprocess.PIPE, stderr=subprocess.STDOUT, text=True, timeout=timeout)


HARNESS = "/verif/harness"


def first_repo_frame(stderr):
    for line in stderr.splitlines():
        if "/repo/src/" in line:
            i = line.index("/repo/src/")
            return line[i + 6:].split(":")[0]
    return "?"


def sanitizer_sweep(name, binary, prop, tier, seed, outdir, nshards, per_shard, env_extra, marker, pre=None, timeout=900):
    """Run the property's own workload under a sanitizer build. Returns (coverage dict, violations)."""
    outs = []

    def job(s):
        def f():
            out = os.path.join(outdir, f"{name}{s}.json")
            return (s,) + run_one(binary, prop, tier, seed + 1000, s, nshards, per_shard, out, env_extra, timeout=timeout, pre=pre)
        return f

    res = parallel([job(s) for s in range(nshards)], nshards)
    cov = {f"{name}_evaluations": 0, f"{name}_processes": nshards, f"{name}_reports": 0}
    viols = []
    for s, rc, err, r in res:
        if r:
            cov[f"{name}_evaluations"] += r.get("evaluations", 0)
            for v in r.get("violations", []):
                viols.append({"sig": v["sig"] + f"|under-{name}", "detail": v["detail"], "case": v["case"], "count": v["count"]})
        if err and marker in (err or ""):
            cov[f"{name}_reports"] += 1
            frame = first_repo_frame(err)
            viols.append({"sig": f"{prop}|{name}-report|{frame}", "detail": f"{name} reported an error in shard {s} (seed {seed + 1000}): " + err[-1500:], "case": {"Enum": {"what": f"{name} shard {s} of {nshards}, seed {seed + 1000}, {per_shard} cases", "lo": 0, "hi": per_shard}}, "count": 1})
        elif rc not in (0, None) and not r:
            cov.setdefault(f"{name}_abnormal_exits", 0)
            cov[f"{name}_abnormal_exits"] += 1
    return cov, viols


def post(prop, tier, seed, env, target, outdir, vh):
    cov, viols = {}, []
    thorough = tier == "thorough"
    if prop == "C17":
        # (e) the Send/Sync obligation: must type-check for every writer type
        r = cargo(["check", "--offline", "--manifest-path", "/verif/sendprobe/Cargo.toml"], env, "sendprobe", target)
        cov["send_probe_typechecks"] = r.returncode == 0
        if r.returncode != 0:
            viols.append({"sig": "C17|send-probe|Muxer<W> is not Send/Sync for every W: Send/Sync", "detail": r.stdout[-1500:], "case": {"Enum": {"what": "cargo check /verif/sendprobe", "lo": 0, "hi": 1}}, "count": 1})
        # (c) wall clock: same workload with the realtime clock skewed by ten years
        shim = os.path.join(target, "clockshim.so")
        cc = subprocess.run(["cc", "-shared", "-fPIC", "-O2", "-o", shim, "/verif/clockshim/clockshim.c", "-ldl"], stdout=subprocess.PIPE, stderr=subprocess.STDOUT, text=True)
        if cc.returncode == 0:
            n = 200 if thorough else 60
            a = os.path.join(outdir, "clock_a.json")
            b = os.path.join(outdir, "clock_b.json")
            cnt = os.path.join(outdir, "clock_reads.txt")
            rc1, e1, r1 = run_one(vh, prop, tier, seed, 2, 4, n, a)
            rc2, e2, r2 = run_one(vh, prop, tier, seed, 2, 4, n, b, {"LD_PRELOAD": shim, "CLOCKSHIM_SKEW": str(10 * 365 * 86400), "CLOCKSHIM_OUT": cnt})
            if r1 and r2:
                d1, d2 = r1["counters"].get("digest_xor"), r2["counters"].get("digest_xor")
                cov["clock_skew_runs_compared"] = r1["cases"]
                cov["clock_skew_digest_equal"] = d1 == d2
                try:
                    cov["realtime_clock_reads_in_skewed_process"] = int(open(cnt).read().strip())
                except Exception:
                    pass
                if d1 != d2 or [v["sig"] for v in r2["violations"]] != [v["sig"] for v in r1["violations"]]:
                    viols.append({"sig": "C17|wall-clock-dependence", "detail": f"the same {n} cases give digest {d1} normally and {d2} with the realtime clock skewed by 10 years", "case": {"Enum": {"what": "clock-skew comparison (shard 2 of 4)", "lo": 0, "hi": n}}, "count": 1})
            else:
                cov["clock_skew_inconclusive"] = True
            # (a') another process, the same cases in the opposite order: whatever ran earlier in
            # a process (first-caller-wins caches, lazily initialised statics) must not matter
            c2 = os.path.join(outdir, "order_rev.json")
            rc3, e3, r3 = run_one(vh, prop, tier, seed, 2, 4, n, c2, {"VH_REVERSE": "1", "VH_PRELUDE": "1"})
            if r1 and r3 and r3.get("cases") == r1.get("cases"):
                d1, d3 = r1["counters"].get("digest_xor"), r3["counters"].get("digest_xor")
                cov["reverse_order_runs_compared"] = r3["cases"]
                cov["reverse_order_digest_equal"] = d1 == d3
                # a third process: reverse order again, after the opposite prelude (complete A/V
                # recordings first, then the oddly shaped ones) - what the first caller looked like
                # must not matter either
                c4 = os.path.join(outdir, "order_rev2.json")
                rc4, e4, r4 = run_one(vh, prop, tier, seed, 2, 4, n, c4, {"VH_REVERSE": "1", "VH_PRELUDE": "2"})
                d4 = r4["counters"].get("digest_xor") if (r4 and r4.get("cases") == r1.get("cases")) else None
                cov["second_prelude_digest_equal"] = (d4 == d1) if d4 is not None else "inconclusive"
                if d1 != d3 or (d4 is not None and d4 != d1) or sorted(v["sig"] for v in r3["violations"]) != sorted(v["sig"] for v in r1["violations"]):
                    viols.append({"sig": "C17|depends-on-what-ran-earlier-in-the-process", "detail": f"the same {n} cases give digest {d1} in index order, {d3} in reverse order after a prelude of oddly shaped muxers and {d4} in reverse order after a prelude that starts with complete A/V recordings (separate processes)", "case": {"Enum": {"what": "forward vs reverse order comparison (shard 2 of 4)", "lo": 0, "hi": n}}, "count": 1})
            else:
                cov["reverse_order_inconclusive"] = True
        else:
            cov["clock_shim_build_failed"] = cc.stdout[-300:]
        if thorough:
            # ThreadSanitizer build of the harness + library (needs -Zbuild-std)
            r = cargo(["+nightly", "build", "--offline", "-Zbuild-std", "--target", "x86_64-unknown-linux-gnu", "--manifest-path", os.path.join(HARNESS, "Cargo.toml")], env, "tsan", target, {"RUSTFLAGS": "-Zsanitizer=thread"})
            if r.returncode == 0:
                tb = os.path.join(target, "tsan", "x86_64-unknown-linux-gnu", "debug", "vharness")
                c, v = sanitizer_sweep("tsan", tb, prop, tier, seed, outdir, 8, 60, {"TSAN_OPTIONS": "halt_on_error=1 exitcode=66", "VH_THREADS_ONLY": "1"}, "ThreadSanitizer")
                cov.update(c)
                viols.extend(v)
            else:
                cov["tsan_build_failed"] = r.stdout[-400:]
            # Miri: data-race detection + schedule exploration on small thread cases
            c, v = miri_sweep(prop, tier, seed, env, target, outdir, nproc=16, cases=2, seeds="0..3")
            cov.update(c)
            viols.extend(v)
    if prop == "C12" and thorough:
        r = cargo(["+nightly", "build", "--offline", "--target", "x86_64-unknown-linux-gnu", "--manifest-path", os.path.join(HARNESS, "Cargo.toml")], env, "asan", target, {"RUSTFLAGS": "-Zsanitizer=address -Cforce-frame-pointers=yes"})
        if r.returncode == 0:
            ab = os.path.join(target, "asan", "x86_64-unknown-linux-gnu", "debug", "vharness")
            c, v = sanitizer_sweep("asan", ab, prop, tier, seed, outdir, 16, 20000, {"ASAN_OPTIONS": "detect_leaks=0:halt_on_error=1:exitcode=67"}, "AddressSanitizer")
            cov.update(c)
            viols.extend(v)
        else:
            cov["asan_build_failed"] = r.stdout[-400:]
        # release build: overflow wraps instead of panicking; panics that remain are still violations
        r = cargo(["build", "--offline", "--release", "--manifest-path", os.path.join(HARNESS, "Cargo.toml")], env, "", target)
        if r.returncode == 0:
            rb = os.path.join(target, "release", "vharness")
            c, v = sanitizer_sweep("release", rb, prop, tier, seed, outdir, 16, 20000, {}, "\x00never")
            cov.update(c)
            viols.extend(v)
        else:
            cov["release_build_failed"] = r.stdout[-400:]
        c, v = miri_sweep(prop, tier, seed, env, target, outdir, nproc=16, cases=25, seeds=None)
        cov.update(c)
        viols.extend(v)
        c, v = fuzz_run(env, target, 150)
        cov.update(c)
        viols.extend(v)
    if prop == "C13" and thorough:
        c, v = miri_sweep(prop, tier, seed, env, target, outdir, nproc=8, cases=1, seeds=None)
        cov.update(c)
        viols.extend(v)
    # write replay files for the extra violations
    outv = []
    for v in viols:
        import hashlib
        os.makedirs("/verif/replays", exist_ok=True)
        h = hashlib.sha1(v["sig"].encode()).hexdigest()[:12]
        path = f"/verif/replays/{prop}-{h}.json"
        json.dump({"prop": prop, "sig": v["sig"], "detail": v["detail"], "case": v["case"]}, open(path, "w"))
        outv.append({"sig": v["sig"], "detail": v["detail"], "replay": path})
    return cov, outv


def fuzz_run(env, target, secs):
    """Coverage-guided libFuzzer run over the byte-driven op interpreter (C12)."""
    cov, viols = {}, []
    e = dict(env)
    e["CARGO_TARGET_DIR"] = os.path.join(target, "fuzz")
    corpus = os.path.join(target, "fuzz-corpus")
    art = os.path.join(target, "fuzz-artifacts") + "/"
    os.makedirs(corpus, exist_ok=True)
    os.makedirs(art, exist_ok=True)
    for f in os.listdir(art):
        os.remove(os.path.join(art, f))
    b = subprocess.run(["cargo", "+nightly", "fuzz", "build", "--fuzz-dir", "/verif/fuzz", "ops"], env=e, stdout=subprocess.PIPE, stderr=subprocess.STDOUT, text=True, timeout=1800)
    if b.returncode != 0:
        cov["fuzz_build_failed"] = b.stdout[-400:]
        return cov, viols
    try:
        r = subprocess.run(["cargo", "+nightly", "fuzz", "run", "--fuzz-dir", "/verif/fuzz", "ops", corpus, "--", f"-max_total_time={secs}", "-timeout=10", "-fork=16", "-ignore_crashes=1", f"-artifact_prefix={art}", "-max_len=2048"], env=e, stdout=subprocess.PIPE, stderr=subprocess.STDOUT, text=True, timeout=secs + 600)
        out = r.stdout
    except subprocess.TimeoutExpired:
        cov["fuzz_timed_out"] = True
        return cov, viols
    import re
    m = re.findall(r"#(\d+): cov: (\d+) ft: (\d+) corp: (\d+)", out)
    if m:
        cov["fuzz_executions"] = int(m[-1][0])
        cov["fuzz_coverage_edges"] = int(m[-1][1])
        cov["fuzz_corpus"] = int(m[-1][3])
    arts = sorted(os.listdir(art))
    cov["fuzz_crash_artifacts"] = len(arts)
    seen = set()
    for a in arts[:50]:
        data = open(os.path.join(art, a), "rb").read()
        kind = a.split("-")[0]
        # classify by replaying through the harness (gives the panic signature)
        case = {"FuzzInput": {"data": data.hex()}}
        tmp = os.path.join(target, "tmp", "fuzz_replay.json")
        json.dump({"prop": "C12", "case": case}, open(tmp, "w"))
        outp = tmp + ".out"
        vh = os.path.join(target, "debug", "vharness")
        try:
            subprocess.run([vh, "replay", tmp, "--out", outp], stdout=subprocess.PIPE, stderr=subprocess.PIPE, timeout=60)
            sigs = json.load(open(outp))["sigs"] if os.path.exists(outp) else []
        except subprocess.TimeoutExpired:
            sigs = ["C12|hang|fuzz input"]
        if not sigs:
            sigs = [f"C12|fuzz-{kind}|not reproduced in the checked build"]
        for sg in sigs:
            if sg not in seen:
                seen.add(sg)
                viols.append({"sig": sg + "|found-by-libFuzzer", "detail": f"libFuzzer artifact {a} ({len(data)} bytes)", "case": case, "count": 1})
    return cov, viols


def miri_sweep(prop, tier, seed, env, target, outdir, nproc, cases, seeds):
    """Run small slices of the property's workload under Miri (UB + data-race interpreter)."""
    e = dict(env)
    e["CARGO_TARGET_DIR"] = os.path.join(target, "miri")
    flags = "-Zmiri-disable-isolation -Zmiri-ignore-leaks"
    if seeds:
        flags += f" -Zmiri-many-seeds={seeds}"
    e["MIRIFLAGS"] = flags
    e["VH_SMALL"] = "1"
    # build once (cargo miri run with --max-cases 0)
    b = subprocess.run(["cargo", "+nightly", "miri", "run", "--offline", "--manifest-path", os.path.join(HARNESS, "Cargo.toml"), "--", "run", "--prop", prop, "--max-cases", "0", "--out", os.path.join(outdir, "miri_build.json")], env=e, stdout=subprocess.PIPE, stderr=subprocess.STDOUT, text=True, timeout=1800)
    cov = {"miri_processes": nproc, "miri_evaluations": 0, "miri_reports": 0}
    viols = []
    if b.returncode != 0 and "Undefined Behavior" not in b.stdout:
        cov["miri_build_failed"] = b.stdout[-400:]
        return cov, viols

    def job(s):
        def f():
            out = os.path.join(outdir, f"miri{s}.json")
            cmd = ["cargo", "+nightly", "miri", "run", "--offline", "--manifest-path", os.path.join(HARNESS, "Cargo.toml"), "--", "run", "--prop", prop, "--tier", tier, "--seed", str(seed + 2000), "--shard", str(s), "--nshards", str(nproc), "--max-cases", str(cases), "--budget-secs", "400", "--stall-secs", "100000", "--out", out]
            try:
                r = subprocess.run(cmd, env=e, stdout=subprocess.PIPE, stderr=subprocess.PIPE, text=True, timeout=1500)
                err = r.stderr
            except subprocess.TimeoutExpired:
                return s, "timeout", None
            res = None
            if os.path.exists(out):
                try:
                    res = json.load(open(out))
                except Exception:
                    res = None
            return s, err, res
        return f

    for s, err, r in parallel([job(s) for s in range(nproc)], nproc):
        if r:
            cov["miri_evaluations"] += r.get("evaluations", 0)
            for v in r.get("violations", []):
                viols.append({"sig": v["sig"] + "|under-miri", "detail": v["detail"], "case": v["case"], "count": v["count"]})
        if err and ("Undefined Behavior" in err or "Data race" in err or "data race" in err):
            cov["miri_reports"] += 1
            viols.append({"sig": f"{prop}|miri-report|{first_repo_frame(err)}", "detail": "Miri reported: " + err[-1500:], "case": {"Enum": {"what": f"miri shard {s} of {nproc}, seed {seed + 2000}, {cases} cases", "lo": 0, "hi": cases}}, "count": 1})
        elif err == "timeout":
            cov.setdefault("miri_timeouts", 0)
            cov["miri_timeouts"] += 1
    return cov, viols
