"""Property-specific pieces of the driver (extra builds, post-processing, crash attribution)."""
import json, os, subprocess


def setup(env, target):
    pass


def prepare(prop, tier, env, target):
    """Extra build steps needed before the shards run."""
    return


def extra_args(prop, tier):
    return []


def case_entry(case):
    if not case:
        return "?"
    k = list(case.keys())[0] if isinstance(case, dict) else str(case)
    return k


def attribute_crash(vh, prop, tier, seed, crash, nshards, outdir):
    return None


def post(prop, tier, seed, env, target, outdir, vh):
    return {}, []
