"""Property-specific pieces of the driver (extra builds, post-processing, crash attribution)."""
import json, os, subprocess, sys

REPO = "/repo"


def setup(env, target):
    build_cli(env, target)


def build_cli(env, target):
    e = dict(env)
    e["CARGO_TARGET_DIR"] = os.path.join(target, "cli")
    r = subprocess.run(["cargo", "build", "--offline", "--manifest-path", os.path.join(REPO, "Cargo.toml"), "--bin", "muxide"], env=e, stdout=subprocess.PIPE, stderr=subprocess.STDOUT, text=True)
    if r.returncode != 0:
        sys.stdout.write(r.stdout[-3000:])
        print("HARNESS-ERROR: building the muxide CLI failed")
        sys.exit(2)


def prepare(prop, tier, env, target):
    """Extra build steps needed before the shards run."""
    if prop == "C20":
        build_cli(env, target)
    os.makedirs(os.path.join(target, "tmp"), exist_ok=True)


def extra_args(prop, tier):
    return []


def case_entry(case):
    if not case:
        return "?"
    if isinstance(case, dict):
        k = list(case.keys())[0]
        c = case[k]
        if k == "Hist":
            ops = c["h"]["ops"]
            if ops:
                last = ops[-1]
                return "Hist:" + (list(last.keys())[0] if isinstance(last, dict) else str(last))
        if k == "Cli":
            return "Cli:" + c.get("cmd", "?")
        return k
    return str(case)


def attribute_crash(vh, prop, tier, seed, crash, nshards, outdir):
    """A shard died (abort / signal): find the case by re-running it one case at a time."""
    s = crash["shard"]
    k = crash.get("start", 0)
    for _ in range(200000):
        out = os.path.join(outdir, f"probe{s}.json")
        r = subprocess.run([vh, "run", "--prop", prop, "--tier", tier, "--seed", str(seed), "--shard", str(s), "--nshards", str(nshards), "--out", out, "--start", str(k), "--max-cases", "256"], stdout=subprocess.PIPE, stderr=subprocess.PIPE, text=True)
        if r.returncode == 0:
            k += 256
            if k > 10_000_000:
                return None
            continue
        # narrow down inside this block
        for j in range(k, k + 256):
            r1 = subprocess.run([vh, "run", "--prop", prop, "--tier", tier, "--seed", str(seed), "--shard", str(s), "--nshards", str(nshards), "--out", out, "--start", str(j), "--max-cases", "1"], stdout=subprocess.PIPE, stderr=subprocess.PIPE, text=True)
            if r1.returncode != 0:
                idx = j * nshards + s
                g = subprocess.run([vh, "gen", "--prop", prop, "--tier", tier, "--seed", str(seed), "--index", str(idx)], stdout=subprocess.PIPE, text=True)
                case = json.loads(g.stdout)["case"]
                sig = f"{prop}|abort|rc={r1.returncode}|{case_entry(case)}"
                return {"sig": sig, "count": 1, "detail": f"process died (rc={r1.returncode}) while evaluating this case: {r1.stderr[-300:]}", "case": case}
        return None
    return None


def post(prop, tier, seed, env, target, outdir, vh):
    return {}, []
