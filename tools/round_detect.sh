#!/bin/bash
# Run the quick check of the owning property against every confirmed change of a round that has no
# detect.txt yet (serial: each run applies the patch to /repo and undoes it). Usage: round_detect.sh <round>
R=$1
cd /verif
for d in seeded/r${R}_c*/; do
  id=$(basename $d)
  [ -f $d/confirm.json ] || continue
  [ -f $d/detect.txt ] && continue
  grep -q '"demo_rc_without_patch": 0, "demo_rc_with_patch": 101, "suite_pass_fail_with_patch": "234 0"' $d/confirm.json || { echo "$id: NOT-CONFIRMED $(cat $d/confirm.json)"; continue; }
  n=$(echo $id | sed -E 's/.*c([0-9][0-9])_.*/\1/')
  props="C$n"; [ -f $d/props ] && props=$(cat $d/props)
  r=$(tools/seed_detect.sh /verif/$d/patch.diff /verif/$d quick $props 2>&1 | grep " rc=" | tr '\n' ';')
  echo "$id: $r"
done
