#!/usr/bin/env python3
"""Writes seeded/<id>/meta.json and regenerates the seeded-change table in DESIGN.md."""
import glob, json, os, re
V = os.path.dirname(os.path.dirname(os.path.abspath(__file__)))
rows = []
for d in sorted(glob.glob(os.path.join(V, "seeded", "*"))):
    sid = os.path.basename(d)
    if not os.path.exists(os.path.join(d, "patch.diff")):
        continue
    am, cf = {}, {}
    try:
        am = json.load(open(os.path.join(d, "agent_meta.json")))
    except Exception:
        pass
    try:
        cf = json.load(open(os.path.join(d, "confirm.json")))
    except Exception:
        pass
    det = []
    p = os.path.join(d, "detect.txt")
    if os.path.exists(p):
        det = [l.strip() for l in open(p) if l.strip()]
    prop = am.get("property") or ("C" + re.search(r"c(\d\d)", sid).group(1))
    detected = [l for l in det if " rc=1 " in l]
    sig = ""
    if detected:
        m = re.search(r"signature: (.*)$", detected[-1])
        sig = m.group(1) if m else ""
    confirmed = cf.get("demo_rc_without_patch") == 0 and cf.get("demo_rc_with_patch") not in (0, -1, None) and (lambda x: bool(x) and x.split()[1] == "0" and int(x.split()[0]) >= 234)(cf.get("suite_pass_fail_with_patch"))
    meta = {
        "id": sid,
        "property": prop,
        "summary": am.get("summary", ""),
        "needs_to_manifest": am.get("needs_to_manifest", ""),
        "why_existing_tests_pass": am.get("why_tests_pass", ""),
        "independently_confirmed": {
            "script": "tools/seed_confirm.sh (scratch worktree of /repo outside /repo and /verif, removed afterwards)",
            "demo_passes_without_patch": cf.get("demo_rc_without_patch") == 0,
            "demo_fails_with_patch": cf.get("demo_rc_with_patch") not in (0, -1, None),
            "repository_suite_with_patch (passed failed)": cf.get("suite_pass_fail_with_patch"),
            "repo_head": cf.get("repo_head"),
        },
        "checked_with": {"script": "tools/seed_detect.sh (git -C /repo apply; ./check <prop> --tier quick; git -C /repo checkout -- .)", "runs": det, "detected_by_quick_check": bool(detected), "first_signature": sig},
    }
    json.dump(meta, open(os.path.join(d, "meta.json"), "w"), indent=1)
    rows.append((sid, prop, (am.get("summary", "") or "").replace("\n", " ").replace("|", "/")[:150], (am.get("needs_to_manifest", "") or "").replace("\n", " ").replace("|", "/")[:140], "yes" if confirmed else "NO", "yes" if detected else "NO", sig.replace("|", "\\|")[:90]))
tbl = ["| id | property | change (abridged) | needs to manifest (abridged) | confirmed | caught by quick check | first signature |", "|---|---|---|---|---|---|---|"]
for r in rows:
    tbl.append("| " + " | ".join(r) + " |")
tbl.append("")
tbl.append(f"{len(rows)} seeded changes; {sum(1 for r in rows if r[5]=='yes')} caught by the property's quick check, {sum(1 for r in rows if r[4]=='yes')} independently confirmed.")
p = os.path.join(V, "DESIGN.md")
s = open(p).read()
a = s.index("<!-- SEEDTABLE-BEGIN -->") + len("<!-- SEEDTABLE-BEGIN -->")
b = s.index("<!-- SEEDTABLE-END -->")
s = s[:a] + "\n" + "\n".join(tbl) + "\n" + s[b:]
open(p, "w").write(s)
print(len(rows), "rows")
