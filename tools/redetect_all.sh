#!/bin/bash
# Re-run the quick check of the owning property against every stored seeded change (and, with
# "reverts" as first argument, against the reverted fix commits too). Leaves seeded/<id>/detect.txt
# and a summary in seeded/redetect.log. /repo must be clean; every patch is undone after its run.
cd /verif
: > seeded/redetect.log
for d in seeded/*/; do
  id=$(basename $d)
  [ -f $d/patch.diff ] || continue
  n=$(echo $id | sed -E 's/.*c([0-9][0-9])_.*/\1/')
  if ! git -C /repo apply --check /verif/$d/patch.diff 2>/dev/null; then echo "$id: DOES-NOT-APPLY" | tee -a seeded/redetect.log; continue; fi
  # seeded/<id>/props (optional) names the properties whose checks are run when the change breaks
  # another property than the one its author was given (see DESIGN.md 5.1); default: its own
  props="C$n"; [ -f $d/props ] && props=$(cat $d/props)
  r=$(tools/seed_detect.sh /verif/$d/patch.diff /verif/$d quick $props 2>&1 | grep " rc=" | tr '\n' ';')
  echo "$id: $r" | tee -a seeded/redetect.log
done
if [ "${1:-}" = reverts ]; then tools/revert_regress.sh 2>&1 | tee -a seeded/redetect.log; fi
