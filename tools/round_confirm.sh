#!/bin/bash
# Confirm both changes of one agent directory of a round. Usage: round_confirm.sh <round> <nn>
# (e.g. round_confirm.sh 10 18 -> seeded/r10_c18_1, seeded/r10_c18_2). Own cargo target dir per job.
R=$1; N=$2
export SEEDCHK_TARGET=/tmp/seedchk/target_$N
for k in 1 2; do
  [ -f /tmp/mut$R/c$N/patch_$k.diff ] || continue
  /verif/tools/seed_confirm.sh /tmp/mut$R/c$N $k r${R}_c${N}_$k
done
rm -rf /tmp/seedchk/target_$N
