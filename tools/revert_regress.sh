#!/bin/bash
# Regression of the monitors against the ORIGINAL defects: each `fix:` commit of /repo is reverted
# (patch files in seeded/reverts/, produced with `git revert --no-commit` in a scratch worktree),
# applied to /repo, the owning property's quick check must report a VIOLATION, and the patch is undone.
cd /verif
MAP="dacc1fa:C16 d30993e:C16 3da402d:C12 1971f21:C20 ccca9a3:C19 9162d84:C19 85d790c:C19 1f034ed:C12 e429085:C16 5ff8fa4:C16 6322b1b:C16 e647008:C16 ad4d6aa:C18 b8a3d56:C07 63b1031:C12 2b0afd6:C12 8be6768:C11 47c8a1c:C12 ad846d8:C12 9dd4b68:C12 1fd125b:C12 9131d89:C12 042c93d:C12 38c94ed:C12 bd32d58:C07 a9cb2b3:C06 87be3ae:C05 492c4ce:C05 91b5e5c:C01"
for m in $MAP; do
  h=${m%%:*}; p=${m##*:}
  echo "== revert $h ($p): $(git -C /repo log -1 --format=%s $h | cut -c1-90)"
  tools/seed_detect.sh /verif/seeded/reverts/revert_$h.diff /verif/seeded/reverts/out_$h quick $p
done
