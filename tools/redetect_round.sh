#!/bin/bash
# Re-run the quick check of the owning property (or of seeded/<id>/props) against every stored
# change of the given rounds at the harness as it stands. Usage: redetect_round.sh <log> <round>...
# /repo must be clean; every patch is undone after its run. Stops when /tmp/stop_redetect exists.
cd /verif
LOG=$1; shift
: > $LOG
for R in "$@"; do
  for d in seeded/r${R}_c*/; do
    [ -e /tmp/stop_redetect ] && { echo "stopped before $d" | tee -a $LOG; exit 0; }
    id=$(basename $d)
    [ -f $d/patch.diff ] || continue
    n=$(echo $id | sed -E 's/.*c([0-9][0-9])_.*/\1/')
    props="C$n"; [ -f $d/props ] && props=$(cat $d/props)
    r=$(tools/seed_detect.sh /verif/$d/patch.diff /verif/$d quick $props 2>&1 | grep " rc=" | cut -c1-160 | tr '\n' ';')
    echo "$id: $r" | tee -a $LOG
  done
done
