#!/bin/bash
# How much of /repo's library code do the workloads reach? Builds the harness with
# -Cinstrument-coverage, runs a slice of every property's quick workload on all 16 shards, prints
# llvm-cov's per-file report for /repo/src (library only). Informational; not a registered check.
set -e
T=/verif/.target
BIN=$(rustc +nightly --print sysroot)/lib/rustlib/x86_64-unknown-linux-gnu/bin
( cd /verif/harness && CARGO_NET_OFFLINE=true CARGO_TARGET_DIR=$T/cov RUSTFLAGS="-Cinstrument-coverage" cargo +nightly build --offline >/dev/null 2>&1 )
mkdir -p $T/cov/prof $T/tmp
find $T/cov/prof -name '*.profraw' -delete
export VH_TARGET=$T
for p in C01 C02 C03 C04 C05 C06 C07 C08 C09 C10 C11 C12 C13 C14 C15 C16 C17 C18 C19; do
  for s in 0 1 2 3 4 5 6 7 8 9 10 11 12 13 14 15; do
    LLVM_PROFILE_FILE=$T/cov/prof/$p-$s-%p.profraw $T/cov/debug/vharness run --prop $p --tier quick --seed 1 --shard $s --nshards 16 --max-cases ${1:-300} --out $T/tmp/cov_$p.json >/dev/null 2>&1 &
  done
  wait
done
$BIN/llvm-profdata merge -sparse $T/cov/prof/*.profraw -o $T/cov/all.profdata
$BIN/llvm-cov report $T/cov/debug/vharness -instr-profile=$T/cov/all.profdata $(ls /repo/src/*.rs /repo/src/*/*.rs | grep -v bin/)
