#!/bin/bash
# Apply a seeded patch to /repo, run the given checks, undo the patch. Usage: seed_detect.sh <patch> <outdir> <tier> <prop>...
set -u
PATCH=$1; OUT=$2; TIER=$3; shift 3
mkdir -p "$OUT"
export VERIF_EVIDENCE_DIR="$OUT/evidence"
cd /verif
if ! git -C /repo diff --quiet; then echo "/repo is dirty, refusing"; exit 2; fi
trap 'git -C /repo checkout -- . ; git -C /repo clean -fdq src tests 2>/dev/null' EXIT
git -C /repo apply "$PATCH" || { echo "patch does not apply"; exit 2; }
: > "$OUT/detect.txt"
for P in "$@"; do
  T0=$(date +%s)
  ./check $P --tier $TIER > "$OUT/check_$P.log" 2>&1; RC=$?
  T1=$(date +%s)
  NV=$(grep -c "^VIOLATION" "$OUT/check_$P.log")
  echo "$P rc=$RC violations=$NV secs=$((T1-T0)) $(grep -m1 'signature:' "$OUT/check_$P.log" | cut -c1-200)" | tee -a "$OUT/detect.txt"
done
