#!/bin/bash
# Confirm a seeded change independently: demo passes without the patch, fails with it, and the
# repository's own suite still passes with it. Usage: seed_confirm.sh <srcdir> <k> <outid>
# (srcdir holds patch_k.diff, tests/seeded_demo_k.rs, meta_k.json). Writes /verif/seeded/<outid>/.
set -u
SRC=$1; K=$2; ID=$3
WT=/tmp/seedchk/$ID
OUT=/verif/seeded/$ID
export CARGO_TARGET_DIR=${SEEDCHK_TARGET:-/tmp/seedchk/target} CARGO_NET_OFFLINE=true
mkdir -p /tmp/seedchk "$OUT"
git -C /repo worktree remove --force "$WT" 2>/dev/null
git -C /repo worktree add -q --detach "$WT" HEAD || exit 2
cp "$SRC/tests/seeded_demo_$K.rs" "$WT/tests/seeded_demo.rs"
cd "$WT"
R_APPLY=ok
git apply --check "$SRC/patch_$K.diff" 2>/dev/null || R_APPLY=conflict
cargo test --offline --test seeded_demo > "$OUT/demo_without.log" 2>&1; RC_WITHOUT=$?
if [ $R_APPLY = ok ]; then
  git apply "$SRC/patch_$K.diff"
  cargo test --offline --test seeded_demo > "$OUT/demo_with.log" 2>&1; RC_WITH=$?
  mv tests/seeded_demo.rs /tmp/seedchk/seeded_demo_$ID.rs
  cargo test --workspace --no-fail-fast --offline > "$OUT/suite_with.log" 2>&1
  PASS=$(grep -E "^test result" "$OUT/suite_with.log" | awk '{p+=$4; f+=$6} END{print p" "f}')
else
  RC_WITH=-1; PASS="0 0"
fi
cp "$SRC/patch_$K.diff" "$OUT/patch.diff"
cp "$SRC/tests/seeded_demo_$K.rs" "$OUT/seeded_demo.rs"
cp "$SRC/meta_$K.json" "$OUT/agent_meta.json" 2>/dev/null
echo "{\"id\": \"$ID\", \"applies\": \"$R_APPLY\", \"demo_rc_without_patch\": $RC_WITHOUT, \"demo_rc_with_patch\": $RC_WITH, \"suite_pass_fail_with_patch\": \"$PASS\", \"repo_head\": \"$(git -C /repo rev-parse --short HEAD)\"}" > "$OUT/confirm.json"
cat "$OUT/confirm.json"
cd /
git -C /repo worktree remove --force "$WT"
