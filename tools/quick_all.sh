#!/bin/bash
# Every registered quick command on the tree as it is; one summary line per property. Usage: quick_all.sh [seed] [tier]
cd /verif
export VERIF_SEED=${1:-1}
T=${2:-quick}
for n in $(seq -w 1 20); do
  ./check C$n --tier $T > /tmp/quick_all_C$n.log 2>&1; rc=$?
  echo "C$n rc=$rc $(grep -c '^VIOLATION' /tmp/quick_all_C$n.log) violations; $(grep -E '^(OK|INCONCLUSIVE|HARNESS)' /tmp/quick_all_C$n.log | tail -1 | cut -c1-150)"
done
