#!/usr/bin/env python3
"""Regenerates /verif/MANIFEST.json from the table below (single source of truth)."""
import json, os, subprocess, sys
V = os.path.dirname(os.path.dirname(os.path.abspath(__file__)))

CHECKS = {
 "C01": ("boundary event log + independent ISO-BMFF reader: resolve every sample, compare with the ledger of accepted frames and the framing models; exact cover of mdat", "3 C01"),
 "C02": ("strict recursive box tiling + mandatory-box grammar + table-count consistency on every emitted stream (files, init segments, media segments)", "3 C02"),
 "C03": ("expanded stts/ctts/mdhd compared with an exact-rational tick model of the submitted timestamps, absolute (drift-free) form", "3 C03"),
 "C04": ("executable contract state machine: Ok <=> no precondition violated, Err(e) => class(e) violated; named don't-care zones", "3 C04"),
 "C05": ("hook H1 state-snapshot equality across every rejected call + differential run of the same history without the rejected calls", "3 C05"),
 "C06": ("sink events stamped with the enclosing call sequence number; stats compared with ledger and presentation-end model", "3 C06"),
 "C07": ("first keyframes generated from field structs / parameter sets; stsd entry decoded by spec decoders and compared field by field", "3 C07"),
 "C08": ("same history run with fast start on and off; resolver on both; equal normalised description", "3 C08"),
 "C09": ("per-track presentation timeline (ctts + edit list) vs submitted A/V offsets", "3 C09"),
 "C10": ("fragment-queue reference model + hook H1 conservation (accepted = emitted + queued) + byte resolution through data_offset", "3 C10"),
 "C11": ("tfdt/trun compared with the DTS model; adjacent-segment relations; init-segment stability", "3 C11"),
 "C12": ("panic hook + catch_unwind + two-stage watchdog around every public call of an op interpreter fed with hostile arguments; subprocess isolation for aborts", "3 C12"),
 "C13": ("scripted fault-injecting sink: every write call x ErrorKind, every byte offset, Ok(0), short/interrupted schedules; prefix / exactly-once oracle", "3 C13"),
 "C14": ("exhaustive small-scope byte strings + constructive NAL lists vs an Annex-B splitter model; all ADTS frame lengths recovered from finished files", "3 C14"),
 "C15": ("resolved absolute sample offsets: per-track monotone, global merge order by timestamp", "3 C15"),
 "C16": ("boundary workloads; independent reader recomputes every numeric field from the ledger; hook H2 lossy-cast events", "3 C16"),
 "C17": ("same histories across instances/threads/sinks/API paths/clock skew must give identical bytes and results; Send probe; (thorough) TSan + Miri", "3 C17"),
 "C18": ("udta/ilst and mdhd language decoded independently; calendar model over every day 1970..9999; all 26^3 language codes", "3 C18"),
 "C19": ("strict specification-derived decoders of every fixed-layout box and configuration record", "3 C19"),
 "C20": ("spawn the built CLI as a subprocess; compare output file with an in-process library run; exit/verdict predicates", "3 C20"),
}
LEVEL_TEXT = {
 "default": "Runtime monitoring: the real library is executed on seeded, hostile and fault-injected workloads and a deterministic oracle observes every execution at the API/sink boundary (plus two guarded hooks). 'Held' means: held on the executions observed; the evidence file counts them. This is the strongest statement this technique family can make for a property quantified over all inputs/histories.",
 "C13": "Fault enumeration: for each representative history every write call and (for small files) every byte offset of the output is failed in turn, with every stable io::ErrorKind, plus Ok(0) and random short/interrupted schedules. Exhaustive over fault points of the chosen histories, sampled over histories.",
 "C14": "Exhaustive over all byte strings up to a length bound over start-code-relevant alphabets and over all 2^13 ADTS frame lengths; sampled beyond (constructive NAL lists).",
}
NOTE = "Trusted base: the independent reader / spec decoders / reference models in /verif/harness/src (own unit tests), rustc, and the two hook functions (read-only). Sampled, not exhaustive, unless the evidence file says exhaustive: true."

def main(done):
    checks = []
    na = []
    for pid in sorted(CHECKS):
        tech, ref = CHECKS[pid]
        if pid in done:
            checks.append({
              "property_id": pid,
              "quick_cmd": f"./check {pid} --tier quick",
              "thorough_cmd": f"./check {pid} --tier thorough",
              "evidence_file": f"/verif/evidence/{pid}.json",
              "replay_cmd_template": f"./check {pid} --replay {{path}}",
              "engine": "vharness",
              "level_claimed": {"category": "fault_enumeration" if pid == "C13" else "exploration", "text": LEVEL_TEXT.get(pid, LEVEL_TEXT["default"]), "design_ref": f"DESIGN.md section {ref}"},
              "level_note": NOTE,
              "technique": "runtime monitoring: " + tech,
            })
        else:
            na.append({"property_id": pid, "reason": "check under construction in this session (monitor designed in DESIGN.md section 3, not yet registered)"})
    commits = subprocess.run(["git", "-C", "/repo", "log", "--format=%H %s"], capture_output=True, text=True).stdout.splitlines()
    hooks = [c.split()[0] for c in commits if "verif hooks" in c]
    m = {
      "version": 1,
      "setup_cmd": "./check --setup",
      "hooks": {"guard": "cargo feature `verif` (off by default)", "enable": "the harness crate depends on muxide with features = [\"verif\"]; every check rebuilds it from /repo's working tree", "baseline_off_cmd": "cd /repo && cargo test --workspace --no-fail-fast --offline", "source_commits": hooks, "add_only": True},
      "engines": [{"name": "vharness", "path": "/verif/harness", "serves_properties": sorted(done), "kind_free_text": "Rust harness: boundary event log, recording/fault-injecting sinks, independent ISO-BMFF reader, spec decoders, reference models, seeded workload generators, one monitor per property; python driver ./check shards it over 16 processes"}],
      "checks": checks,
      "notes": "Known genuine defects that are recorded rather than repaired are listed in /verif/known_findings.json; repaired ones are listed there as 'fixed:' entries and suppress nothing.",
      "not_applicable": na,
    }
    json.dump(m, open(os.path.join(V, "MANIFEST.json"), "w"), indent=1)

if __name__ == "__main__":
    main(set(sys.argv[1:]))
