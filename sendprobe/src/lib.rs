//! Type-level obligation of C17: "a muxer may be moved between threads whenever its sink may".
//! This crate type-checks only while `Muxer<W>: Send` follows from `W: Send` (and `Sync` from
//! `W: Sync`, as documented) for EVERY writer type W. A failure to compile is reported by the C17
//! check as a violation. (No execution can observe a universally quantified auto-trait
//! implication; this probe is the build precondition of the runtime workload.)
use muxide::api::{Muxer, MuxerBuilder};
use std::io::Write;

fn is_send<T: Send>() {}
fn is_sync<T: Sync>() {}

pub fn muxer_is_send_whenever_its_sink_is<W: Write + Send>() {
    is_send::<Muxer<W>>();
    is_send::<MuxerBuilder<W>>();
}

pub fn muxer_is_sync_whenever_its_sink_is<W: Write + Sync>() {
    is_sync::<Muxer<W>>();
    is_sync::<MuxerBuilder<W>>();
}

pub fn fragmented_muxer_is_send_and_sync() {
    is_send::<muxide::fragmented::FragmentedMuxer>();
    is_sync::<muxide::fragmented::FragmentedMuxer>();
}
