/* LD_PRELOAD shim: skews the realtime clock by CLOCKSHIM_SKEW seconds and counts how often the
 * process reads it. Used by the C17 check: muxing output must not depend on the wall clock. */
#define _GNU_SOURCE
#include <dlfcn.h>
#include <stdio.h>
#include <stdlib.h>
#include <sys/time.h>
#include <time.h>

static long skew(void) {
    static long s = 0; static int init = 0;
    if (!init) { const char *e = getenv("CLOCKSHIM_SKEW"); s = e ? atol(e) : 0; init = 1; }
    return s;
}
static volatile long realtime_reads = 0;

int clock_gettime(clockid_t id, struct timespec *ts) {
    static int (*real)(clockid_t, struct timespec *) = 0;
    if (!real) real = dlsym(RTLD_NEXT, "clock_gettime");
    int r = real(id, ts);
    if (r == 0 && id == CLOCK_REALTIME) { __sync_fetch_and_add(&realtime_reads, 1); ts->tv_sec += skew(); }
    return r;
}
int gettimeofday(struct timeval *tv, void *tz) {
    static int (*real)(struct timeval *, void *) = 0;
    if (!real) real = dlsym(RTLD_NEXT, "gettimeofday");
    int r = real(tv, tz);
    if (r == 0 && tv) { __sync_fetch_and_add(&realtime_reads, 1); tv->tv_sec += skew(); }
    return r;
}
time_t time(time_t *t) {
    static time_t (*real)(time_t *) = 0;
    if (!real) real = dlsym(RTLD_NEXT, "time");
    time_t r = real(0);
    __sync_fetch_and_add(&realtime_reads, 1);
    r += skew();
    if (t) *t = r;
    return r;
}
__attribute__((destructor)) static void report(void) {
    const char *p = getenv("CLOCKSHIM_OUT");
    if (p) { FILE *f = fopen(p, "w"); if (f) { fprintf(f, "%ld\n", realtime_reads); fclose(f); } }
}
